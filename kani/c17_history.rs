//! C17 -- the position history `StateHistory` (what `analyze_recursive` consults for repetitions).
//! Child module of `weechess_engine::searcher`.
//!
//! `StateHistory` wraps a `std::collections::HashMap<Hash, usize>`, whose constructor needs OS randomness and whose probing
//! uses SIMD intrinsics -- not executable in CBMC.  The struct and every method of `impl StateHistory` are extracted textually
//! and verbatim on every run (driver: EXTRACTS kind "fns") into `state_history_extracted.rs` and compiled here against a
//! small MODEL of the three `HashMap` operations they use (`new`, `entry(k).or_insert(v)`, `get(&k)`): an association list
//! of four slots.  What this drops, exactly: std's hash table (trusted to be a map); the bodies are not touched.
use super::*;

mod mapmodel {
    /// association-list model of std::collections::HashMap for Copy keys and values (capacity 4; the model panics when full,
    /// which the obligations never reach)
    pub struct HashMap<K, V> {
        slots: [Option<(K, V)>; 4],
    }
    pub struct Entry<'a, K, V> {
        map: &'a mut HashMap<K, V>,
        key: K,
    }
    impl<K: Copy + PartialEq, V: Copy> HashMap<K, V> {
        pub fn new() -> Self {
            Self { slots: [None; 4] }
        }
        pub fn entry(&mut self, key: K) -> Entry<'_, K, V> {
            Entry { map: self, key }
        }
        pub fn get(&self, key: &K) -> Option<&V> {
            let mut i = 0;
            while i < 4 {
                if let Some((k, v)) = &self.slots[i] {
                    if *k == *key {
                        return Some(v);
                    }
                }
                i += 1;
            }
            None
        }
    }
    impl<'a, K: Copy + PartialEq, V: Copy> Entry<'a, K, V> {
        pub fn or_insert(self, default: V) -> &'a mut V {
            let mut at = 4;
            let mut i = 0;
            while i < 4 {
                match &self.map.slots[i] {
                    Some((k, _)) if *k == self.key => {
                        at = i;
                        break;
                    }
                    None if at == 4 => at = i,
                    _ => {}
                }
                i += 1;
            }
            // an existing key wins over the first free slot
            let mut j = 0;
            while j < 4 {
                if let Some((k, _)) = &self.map.slots[j] {
                    if *k == self.key {
                        at = j;
                    }
                }
                j += 1;
            }
            assert!(at < 4, "the model map is full");
            if self.map.slots[at].is_none() {
                self.map.slots[at] = Some((self.key, default));
            }
            match &mut self.map.slots[at] {
                Some((_, v)) => v,
                None => unreachable!(),
            }
        }
    }
}
use mapmodel::HashMap; // shadows the glob import of std's HashMap

include!("state_history_extracted.rs"); // struct StateHistory { .. }  impl StateHistory { <every fn item, verbatim> }

/// The history is a faithful multiset of the recorded hashes: starting from `new()`, after any sequence of up to three
/// `increment`s (symbolic hashes, possibly equal), `lookup(k)` answers Some exactly for the recorded hashes -- never for
/// another key -- and the count it reports is the number of times k was recorded.
#[kani::proof]
#[kani::unwind(6)]
fn c17_history_is_a_faithful_multiset() {
    let hs: [Hash; 3] = kani::any();
    let n: usize = kani::any();
    kani::assume(n <= 3);
    let mut history = StateHistory::new();
    let k: Hash = kani::any();
    assert!(history.lookup(&k).is_none(), "a new history holds nothing");
    let mut i = 0;
    while i < 3 {
        if i < n {
            history.increment(hs[i]);
        }
        i += 1;
    }
    let mut times = 0usize;
    let mut i = 0;
    while i < 3 {
        if i < n && hs[i] == k {
            times += 1;
        }
        i += 1;
    }
    match history.lookup(&k) {
        None => assert!(times == 0, "a recorded hash is found"),
        Some(c) => assert!(times > 0 && *c == times, "only recorded hashes are found, with their multiplicity"),
    }
    kani::cover!(times == 2 && n == 3, "a hash recorded twice among three reachable");
    kani::cover!(times == 0 && n == 3, "an unrecorded hash reachable");
}
