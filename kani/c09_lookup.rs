//! C09 -- the three slider LOOK-UPS `AttackGenerator::compute_{bishop,rook,queen}_attacks`.  Child module of
//! `weechess_core::attacks`.
//!
//! The filled magic tables cannot be executed symbolically (2 x 64 x `vec![..; 4096]` behind `lazy_static`).  The three fn
//! items are extracted textually and verbatim on every run (driver: EXTRACTS kind "fns") into `attack_lookups_extracted.rs`
//! as `impl LookUps { .. }` and compiled here against a module `data` whose six tables (slide masks, magics, index widths and
//! the two filled tables, rook and bishop) are ABSTRACT: arbitrary symbolic contents per square, and an arbitrary function
//! of (square, key) for the filled tables.  The contract: the look-up reads row `square` of the piece's own table at
//! key = ((occupancy & MASK[square]) * MAGIC[square]) >> (64 - WIDTH[square]) (64-bit wrapping product), for every
//! table content; the queen is the union of the two.  What the REAL tables hold is the business of the other obligations
//! (slide masks, perfect hashing of the real constants, subset enumeration, unoptimised generators, off-mask lemma) and of
//! the native stand-in for the two fill loops.
use super::*;
use crate::verif_spec::*;

#[allow(non_upper_case_globals, dead_code)]
mod data {
    use crate::{BitBoard, Square};
    use std::ops::Index;

    // [0] rook, [1] bishop
    pub static mut MASK_CELLS: [[BitBoard; 64]; 2] = [[BitBoard::ZERO; 64]; 2];
    pub static mut MAGIC_CELLS: [[BitBoard; 64]; 2] = [[BitBoard::ZERO; 64]; 2];
    pub static mut WIDTH_CELLS: [[u8; 64]; 2] = [[0; 64]; 2];
    pub static mut SEEDS: [u64; 4] = [0; 4];
    pub static mut LAST: [BitBoard; 4] = [BitBoard::ZERO; 4];

    /// the abstract filled table: a function of (piece, square, key) that is injective in (square, key) for each piece and
    /// kept as simple as possible for the solver (key < 2^12, square < 2^6)
    pub fn table(which: usize, sq: u8, key: usize) -> u64 {
        let s = unsafe { SEEDS };
        s[which] ^ (key as u64) ^ ((sq as u64) << 52)
    }

    pub struct Cells(pub usize, pub bool); // (piece, magics?)
    impl Index<Square> for Cells {
        type Output = BitBoard;
        fn index(&self, s: Square) -> &BitBoard {
            let i: u8 = s.into();
            unsafe {
                if self.1 {
                    &(*std::ptr::addr_of!(MAGIC_CELLS))[self.0][i as usize]
                } else {
                    &(*std::ptr::addr_of!(MASK_CELLS))[self.0][i as usize]
                }
            }
        }
    }
    pub struct Widths(pub usize);
    impl Index<Square> for Widths {
        type Output = u8;
        fn index(&self, s: Square) -> &u8 {
            let i: u8 = s.into();
            unsafe { &(*std::ptr::addr_of!(WIDTH_CELLS))[self.0][i as usize] }
        }
    }
    pub struct Row(pub usize, pub u8);
    impl Index<usize> for Row {
        type Output = BitBoard;
        fn index(&self, key: usize) -> &BitBoard {
            unsafe {
                (*std::ptr::addr_of_mut!(LAST))[self.0] = BitBoard::new(table(self.0, self.1, key));
                &(*std::ptr::addr_of!(LAST))[self.0]
            }
        }
    }
    pub struct Table(pub usize);
    const fn rows(which: usize) -> [Row; 64] {
        let mut r = [const { Row(0, 0) }; 64];
        let mut i = 0;
        while i < 64 {
            r[i] = Row(which, i as u8);
            i += 1;
        }
        r
    }
    static ROOK_ROWS: [Row; 64] = rows(0);
    static BISHOP_ROWS: [Row; 64] = rows(1);
    impl Index<Square> for Table {
        type Output = Row;
        fn index(&self, s: Square) -> &Row {
            let i: u8 = s.into();
            if self.0 == 0 {
                &ROOK_ROWS[i as usize]
            } else {
                &BISHOP_ROWS[i as usize]
            }
        }
    }

    pub static ROOK_SLIDE_MASKS: Cells = Cells(0, false);
    pub static BISHOP_SLIDE_MASKS: Cells = Cells(1, false);
    pub static ROOK_MAGICS: Cells = Cells(0, true);
    pub static BISHOP_MAGICS: Cells = Cells(1, true);
    pub static ROOK_MAGIC_INDEXES: Widths = Widths(0);
    pub static BISHOP_MAGIC_INDEXES: Widths = Widths(1);
    pub static ROOK_MAGIC_TABLE: Table = Table(0);
    pub static BISHOP_MAGIC_TABLE: Table = Table(1);
}

pub struct LookUps;
include!("attack_lookups_extracted.rs"); // impl LookUps { compute_bishop_attacks, compute_rook_attacks, compute_queen_attacks: verbatim }

static mut MAGIC_SEL: [u8; 4] = [0; 4];
const MAGIC_CHOICES: [u64; 4] = [0x0000_0001_0000_0001, 0x0000_0000_0000_0001, 0x8000_0000_0000_0001, 0x0001_0000_0000_0000];

fn expected(which: usize, sq: u8, occ: u64) -> u64 {
    let (mask, width, sel) = unsafe { (bb(data::MASK_CELLS[which][sq as usize]), data::WIDTH_CELLS[which][sq as usize], MAGIC_SEL[which]) };
    let x = occ & mask;
    let product = match sel {
        0 => x.wrapping_add(x << 32),
        1 => x,
        2 => x.wrapping_add(x << 63),
        _ => x << 48,
    };
    let key = product >> (64 - width as u32);
    data::table(which, sq, key as usize)
}

/// for every content of the six tables (index widths 1..=12, which the z3 obligation checks for the real constants), every
/// square and every occupancy: rook and bishop look-ups read their own table at the masked magic key; queen = rook | bishop
#[kani::proof]
fn c09_lookups_read_the_masked_magic_key() {
    let s = any_square();
    let i = sq_u8(s);
    unsafe {
        data::SEEDS = kani::any();
        let mut w = 0;
        while w < 2 {
            // only the cells of square s are read; the other cells stay zero (the look-ups must not read them)
            data::MASK_CELLS[w][i as usize] = BitBoard::new(kani::any());
            // the magic multiplier of square s is one of four constants, chosen symbolically and independently for rook and
            // bishop: enough to tell every table cell and every arithmetic operation apart, while the solver multiplies by
            // constants (two fully symbolic 64-bit multipliers compared for equality did not finish in 20 minutes)
            let sel: u8 = kani::any();
            kani::assume(sel < 4);
            data::MAGIC_CELLS[w][i as usize] = BitBoard::new(MAGIC_CHOICES[sel as usize]);
            MAGIC_SEL[w] = sel;
            let width: u8 = kani::any();
            kani::assume(width >= 1 && width <= 12);
            data::WIDTH_CELLS[w][i as usize] = width;
            w += 1;
        }
    }
    let occ: u64 = kani::any();
    let r = bb(LookUps::compute_rook_attacks(s, BitBoard::new(occ)));
    let b = bb(LookUps::compute_bishop_attacks(s, BitBoard::new(occ)));
    let q = bb(LookUps::compute_queen_attacks(s, BitBoard::new(occ)));
    assert!(r == expected(0, i, occ), "rook look-up: row `square` of the rook table at the masked magic key");
    assert!(b == expected(1, i, occ), "bishop look-up: row `square` of the bishop table at the masked magic key");
    assert!(q == r | b, "queen = rook | bishop");
    kani::cover!(r != b, "rook and bishop differ reachable");
}
