//! C15 -- the routing layer `TranspositionTableAccess::{insert, find, entries, max_entries}`.
//! Child module of `weechess_engine::searcher`.
//!
//! The four fn items are extracted textually and verbatim on every run (driver: EXTRACTS kind "fns") into
//! `tt_access_extracted.rs` and compiled below inside `impl TranspositionTableAccess` of a struct with the same field,
//! `tables: Vec<RwLock<TranspositionTable>>`, where `TranspositionTable` is the REAL type and `RwLock` is a sequential
//! model of `std::sync::RwLock` (a `RefCell`: `read()` / `write()` always succeed, hand out a shared / exclusive guard
//! and panic on a conflicting access -- so an access outside the lock discipline on one thread is a failed check).
//! What this drops, exactly: blocking, poisoning and real concurrency (std's futex-based lock exhausted 12 GB in CBMC
//! even for 2 x 2 tables).  The bodies of the four methods are not touched.
//!
//! The callees `TranspositionTable::{insert, find, entries, max_entries}` are replaced by recording stubs: their contract
//! is what the Verus obligations prove on the verbatim bodies (c15_table_*).  Each sub-table is identified by the value
//! the harness puts into its `used_slots` field.
use super::*;

mod lockmodel {
    use std::cell::{Ref, RefCell, RefMut};
    pub struct RwLock<T> {
        cell: RefCell<T>,
    }
    impl<T> RwLock<T> {
        pub fn new(t: T) -> Self {
            Self { cell: RefCell::new(t) }
        }
        pub fn read(&self) -> Result<Ref<'_, T>, ()> {
            Ok(self.cell.borrow())
        }
        pub fn write(&self) -> Result<RefMut<'_, T>, ()> {
            Ok(self.cell.borrow_mut())
        }
    }
}

// explicit items shadow the glob import of the real `RwLock` and `TranspositionTableAccess`
use lockmodel::RwLock;
// struct TranspositionTableAccess { .. } and impl TranspositionTableAccess { <every fn item but `small`/`iter_moves`> }, verbatim
include!("tt_access_extracted.rs");

const MAX_TABLES: usize = 8; // production uses 128 sub-tables, the unit tests 8; the index expression is loop-free

// recording oracle; arrays of 32 bytes (an 8-byte static triggers a Kani 0.68 artefact, DESIGN.md section 0 item 3)
static mut CALLS: [u64; 4] = [0; 4]; // [insert calls, find calls, entries calls, max_entries calls]
static mut ARGS: [u64; 4] = [0; 4]; // [table id, hash] of the last insert, [table id, hash] of the last find
static mut ENTRY_IN: [Option<TranspositionEntry>; 2] = [None, None]; // [0] = entry passed to insert
static mut ANSWER: [Option<TranspositionEntry>; 2] = [None, None]; // [0] = what the table's find answers
static mut COUNTS_E: [u32; 8] = [0; 8]; // per-table answers of entries()
static mut COUNTS_M: [u32; 8] = [0; 8]; // per-table answers of max_entries()

fn stub_table_insert(t: &mut TranspositionTable, hash: Hash, entry: TranspositionEntry) {
    unsafe {
        CALLS[0] += 1;
        ARGS[0] = t.used_slots as u64;
        ARGS[1] = hash;
        ENTRY_IN[0] = Some(entry);
    }
}

fn stub_table_find(t: &TranspositionTable, hash: Hash) -> Option<&TranspositionEntry> {
    unsafe {
        CALLS[1] += 1;
        ARGS[2] = t.used_slots as u64;
        ARGS[3] = hash;
        (*std::ptr::addr_of!(ANSWER))[0].as_ref()
    }
}

/// the table's answers to entries()/max_entries() are arbitrary per table (symbolic values indexed by the table id), so a
/// table counted twice or skipped changes the sum
fn stub_table_entries(t: &TranspositionTable) -> usize {
    unsafe {
        CALLS[2] += 1;
        COUNTS_E[t.used_slots] as usize
    }
}

fn stub_table_max_entries(t: &TranspositionTable) -> usize {
    unsafe {
        CALLS[3] += 1;
        COUNTS_M[t.used_slots] as usize
    }
}

/// model of Vec::push for harness vectors with spare capacity (DESIGN.md section 0 item 6)
fn stub_vec_push<T, A: std::alloc::Allocator>(v: &mut Vec<T, A>, value: T) {
    let len = v.len();
    assert!(len < v.capacity(), "the harness vector has spare capacity");
    unsafe {
        std::ptr::write(v.as_mut_ptr().add(len), value);
        v.set_len(len + 1);
    }
}

fn any_entry() -> TranspositionEntry {
    let k: u8 = kani::any();
    kani::assume(k < 3);
    TranspositionEntry {
        kind: match k {
            0 => EvaluationKind::Exact,
            1 => EvaluationKind::UpperBound,
            _ => EvaluationKind::LowerBound,
        },
        performed_move: kani::any::<weechess_core::Move>(),
        depth: kani::any(),
        max_depth: kani::any(),
        evaluation: Evaluation::from(kani::any::<i32>()),
    }
}

fn entry_eq(a: &TranspositionEntry, b: &TranspositionEntry) -> bool {
    a.kind == b.kind
        && a.performed_move == b.performed_move
        && a.depth == b.depth
        && a.max_depth == b.max_depth
        && a.evaluation == b.evaluation
}

/// n placeholder sub-tables, the i-th identified by used_slots == i (the stubs never look at `buckets`).  The value is
/// built with a struct literal: going through the real `with_tables` (`into_iter().map(RwLock::new).collect()`) exhausted
/// 12 GB in CBMC (Vec's in-place collect), so a change that adds routing state to the struct no longer compiles here and
/// the check ends undecided (exit 2), not with a verdict.
fn access_with(n: usize) -> TranspositionTableAccess {
    let mut tables = Vec::with_capacity(MAX_TABLES);
    let mut i = 0;
    while i < MAX_TABLES {
        if i < n {
            tables.push(RwLock::new(TranspositionTable { buckets: Vec::new(), used_slots: i }));
        }
        i += 1;
    }
    TranspositionTableAccess { tables }
}

/// Routing contract of insert: for every number of sub-tables 1..=MAX_TABLES, key and entry, exactly ONE sub-table is touched,
/// it is sub-table `hash mod n`, and it receives exactly (hash, entry) -- the full 64-bit key, unchanged.
#[kani::proof]
#[kani::unwind(10)]
#[kani::stub(std::vec::Vec::push, stub_vec_push)]
#[kani::stub(TranspositionTable::insert, stub_table_insert)]
#[kani::stub(TranspositionTable::find, stub_table_find)]
fn c15_access_insert_routes_by_key() {
    let n: usize = kani::any();
    kani::assume(1 <= n && n <= MAX_TABLES);
    let access = access_with(n);
    let h: Hash = kani::any();
    let e = any_entry();
    access.insert(h, e);
    unsafe {
        assert!(CALLS[0] == 1, "exactly one sub-table insert");
        // (a look-up during insert is not forbidden by the property, but it must stay inside the key's own sub-table)
        assert!(CALLS[1] == 0 || ARGS[2] == (h % (n as u64)), "nothing is read from another sub-table");
        assert!(ARGS[0] == (h % (n as u64)), "the sub-table is hash mod table count");
        assert!(ARGS[1] == h, "the sub-table stores the entry under the full key");
        let got = (*std::ptr::addr_of!(ENTRY_IN))[0];
        assert!(got.is_some() && entry_eq(&got.unwrap(), &e), "the entry is handed on unchanged");
    }
    kani::cover!(n == 8 && h % 8 == 7, "last of 8 sub-tables reachable");
    kani::cover!(n == 1, "single table reachable");
    kani::cover!(n == 3 && h == 3, "non power of two table count reachable");
    std::mem::forget(access);
}

/// Routing contract of find: the SAME sub-table as insert (`hash mod n`) is asked for exactly the full key, and its
/// answer is returned as it is (a copy) -- so a lookup can only ever see what that sub-table holds under exactly this key.
#[kani::proof]
#[kani::unwind(10)]
#[kani::stub(std::vec::Vec::push, stub_vec_push)]
#[kani::stub(TranspositionTable::insert, stub_table_insert)]
#[kani::stub(TranspositionTable::find, stub_table_find)]
fn c15_access_find_routes_by_key() {
    let n: usize = kani::any();
    kani::assume(1 <= n && n <= MAX_TABLES);
    let access = access_with(n);
    let h: Hash = kani::any();
    let hit: bool = kani::any();
    let stored = any_entry();
    unsafe {
        (*std::ptr::addr_of_mut!(ANSWER))[0] = if hit { Some(stored) } else { None };
    }
    let r = access.find(h);
    unsafe {
        assert!(CALLS[1] == 1 && CALLS[0] == 0, "exactly one sub-table lookup, nothing written");
        assert!(ARGS[2] == (h % (n as u64)), "the sub-table is hash mod table count -- the one insert uses");
        assert!(ARGS[3] == h, "the sub-table is asked for the full key");
    }
    match r {
        None => assert!(!hit),
        Some(x) => assert!(hit && entry_eq(&x, &stored)),
    }
    kani::cover!(hit && n == 8, "hit reachable");
    kani::cover!(!hit && n == 3, "miss reachable");
    std::mem::forget(access);
}

/// entries() / max_entries() are the sums of the sub-tables' answers, every sub-table counted exactly once
#[kani::proof]
#[kani::unwind(10)]
#[kani::stub(std::vec::Vec::push, stub_vec_push)]
#[kani::stub(TranspositionTable::entries, stub_table_entries)]
#[kani::stub(TranspositionTable::max_entries, stub_table_max_entries)]
fn c15_access_counts_are_sums() {
    let n: usize = kani::any();
    kani::assume(1 <= n && n <= 8);
    let access = access_with(n);
    let ce: [u32; 8] = kani::any();
    let cm: [u32; 8] = kani::any();
    unsafe {
        COUNTS_E = ce;
        COUNTS_M = cm;
    }
    let (mut want_e, mut want_m) = (0usize, 0usize);
    let mut i = 0;
    while i < 8 {
        if i < n {
            want_e += ce[i] as usize;
            want_m += cm[i] as usize;
        }
        i += 1;
    }
    let e = access.entries();
    unsafe {
        assert!(CALLS[2] == n as u64 && CALLS[3] == 0);
    }
    assert!(e == want_e, "entries() is the sum over the sub-tables, each counted once");
    let m = access.max_entries();
    unsafe {
        assert!(CALLS[3] == n as u64);
    }
    assert!(m == want_m, "max_entries() is the sum over the sub-tables, each counted once");
    kani::cover!(n == 8, "eight sub-tables reachable");
    std::mem::forget(access);
}

// ---- the same routing contract with the value built by the real constructor ------------------------------------------------

fn stub_vec_reserve<T, A: std::alloc::Allocator>(v: &mut Vec<T, A>, additional: usize) {
    assert!(v.capacity() - v.len() >= additional, "collect() allocated exactly what the table count asks for");
}

/// `with_tables` (verbatim) wraps the sub-tables in order, and `insert` on the value it returns routes by the full key --
/// so routing state that the constructor derives from the table count (if it ever does) is covered as well.
#[kani::proof]
#[kani::unwind(10)]
#[kani::stub(std::vec::Vec::push, stub_vec_push)]
#[kani::stub(std::vec::Vec::reserve, stub_vec_reserve)]
#[kani::stub(TranspositionTable::insert, stub_table_insert)]
#[kani::stub(TranspositionTable::find, stub_table_find)]
fn c15_access_constructor_then_insert_and_find() {
    let n: usize = kani::any();
    kani::assume(1 <= n && n <= 4);
    let mut tables = Vec::with_capacity(4);
    let mut i = 0;
    while i < 4 {
        if i < n {
            tables.push(TranspositionTable { buckets: Vec::new(), used_slots: i });
        }
        i += 1;
    }
    let access = TranspositionTableAccess::with_tables(tables);
    let h: Hash = kani::any();
    let e = any_entry();
    access.insert(h, e);
    unsafe {
        assert!(CALLS[0] == 1 && ARGS[0] == (h % (n as u64)) && ARGS[1] == h);
    }
    let r = access.find(h);
    unsafe {
        assert!(CALLS[1] == 1 && ARGS[2] == (h % (n as u64)) && ARGS[3] == h);
    }
    assert!(r.is_none()); // the stubbed table answers None unless the harness says otherwise
    kani::cover!(n == 3 && h == 3, "non power of two table count reachable");
    std::mem::forget(access);
}

// ---- thorough tier: the same routing contracts with up to 32 sub-tables --------------------------------------------------------

fn access_with_32(n: usize) -> TranspositionTableAccess {
    let mut tables = Vec::with_capacity(32);
    let mut i = 0;
    while i < 32 {
        if i < n {
            tables.push(RwLock::new(TranspositionTable { buckets: Vec::new(), used_slots: i }));
        }
        i += 1;
    }
    TranspositionTableAccess { tables }
}

#[kani::proof]
#[kani::unwind(34)]
#[kani::stub(std::vec::Vec::push, stub_vec_push)]
#[kani::stub(TranspositionTable::insert, stub_table_insert)]
#[kani::stub(TranspositionTable::find, stub_table_find)]
fn c15_access_routes_by_key_32() {
    let n: usize = kani::any();
    kani::assume(1 <= n && n <= 32);
    let access = access_with_32(n);
    let h: Hash = kani::any();
    let e = any_entry();
    access.insert(h, e);
    unsafe {
        assert!(CALLS[0] == 1 && ARGS[0] == (h % (n as u64)) && ARGS[1] == h);
        let got = (*std::ptr::addr_of!(ENTRY_IN))[0];
        assert!(got.is_some() && entry_eq(&got.unwrap(), &e));
    }
    let k: Hash = kani::any();
    let r = access.find(k);
    unsafe {
        assert!(CALLS[1] == 1 && ARGS[2] == (k % (n as u64)) && ARGS[3] == k);
    }
    assert!(r.is_none());
    kani::cover!(n == 32 && h % 32 == 31, "last of 32 sub-tables reachable");
    kani::cover!(n == 24, "non power of two table count reachable");
    std::mem::forget(access);
}
