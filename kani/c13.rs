//! C13 -- evaluation is colour-symmetric.  Child module of `weechess_engine::eval`.
use super::*;
use weechess_core::{Board, MoveSet, PseudoLegalMove, MoveResult, Square};

// ---- (a) the weighting is odd -------------------------------------------------------------------------------------------

/// (x * w) as i32 is an odd function of x for the four weights used (and any finite weight): negating a term
/// negates its weighted contribution exactly (truncation is toward zero on both sides)
#[kani::proof]
fn c13_mul_f32_is_odd() {
    let x: i32 = kani::any();
    // machine range: the weighted value must fit i32 (beyond that `as i32` saturates asymmetrically at MIN/MAX);
    // evaluation terms are below 10^5 in absolute value
    kani::assume(x >= -1_000_000_000 && x <= 1_000_000_000);
    let w: f32 = kani::any();
    kani::assume(w == 1.0 || w == 0.8 || w == 0.2 || w == 0.5 || w == 0.4 || w == 2.0);
    let a: i32 = (Evaluation(x) * w).into();
    let b: i32 = (Evaluation(-x) * w).into();
    assert!(b == -a);
    kani::cover!(x > 1000 && w == 0.8, "reachable");
}

#[kani::proof]
fn c13_neg_sub_antisymmetric() {
    let a: i32 = kani::any();
    let b: i32 = kani::any();
    kani::assume(a > -1_000_000 && a < 1_000_000 && b > -1_000_000 && b < 1_000_000);
    assert!(Evaluation(a) - Evaluation(b) == -(Evaluation(b) - Evaluation(a)));
    kani::cover!(a != b, "reachable");
}

// ---- (b) evaluate(s, White, d) == -evaluate(s, Black, d) with abstract terms and the callee contracts ----------------

static mut HAS_LEGAL_MOVE: bool = false;
static mut ORACLE: [u64; 4] = [0; 4]; // 0 attacked set, 1 king neighbours
static mut TERMS: [i32; 8] = [0; 8]; // term i from White's / Black's perspective: TERMS[2i], TERMS[2i+1]

fn stub_compute_legal_moves(_state: &State) -> MoveSet {
    MoveSet::empty()
}
fn stub_is_empty(_set: &MoveSet) -> bool {
    !unsafe { HAS_LEGAL_MOVE }
}
fn stub_try_as_legal_move(mv: PseudoLegalMove, state: &State) -> Option<MoveResult> {
    // deterministic in the move (the two evaluate calls must see the same oracle)
    if unsafe { HAS_LEGAL_MOVE } && (unsafe { ORACLE[2] } >> (mv.as_raw() % 64)) & 1 == 1 {
        Some(MoveResult(*mv, state.clone()))
    } else {
        None
    }
}
fn stub_colored_attacks(_b: &Board, _c: Color) -> BitBoard {
    BitBoard::new(unsafe { ORACLE[0] })
}
fn stub_king_attacks(_s: Square) -> BitBoard {
    BitBoard::new(unsafe { ORACLE[1] })
}

macro_rules! abstract_term {
    ($name:ident, $i:expr) => {
        fn $name(_v: &StateVariation<'_>, p: &Color, eval: &mut Evaluation, _stop: &mut bool) {
            let t = unsafe { TERMS };
            *eval = Evaluation(if *p == Color::White { t[2 * $i] } else { t[2 * $i + 1] });
        }
    };
}
abstract_term!(term0, 0);
abstract_term!(term1, 1);
abstract_term!(term2, 2);
abstract_term!(term3, 3);
const ABSTRACT_TERMS: &'static [(f32, EvaluationFunction)] = &[(1.0, term0), (0.8, term1), (1.0, term2), (0.2, term3)];
/// quick tier: two terms, one with a non-trivial weight (each float multiplication doubles the solver's work; oddness of
/// the weighting is its own obligation, c13_mul_f32_is_odd); two, so that anything the term loop does BETWEEN terms (an
/// early exit, a running clamp) is exercised from both perspectives
const ABSTRACT_TERMS_QUICK: &'static [(f32, EvaluationFunction)] = &[(1.0, term0), (0.8, term1)];

#[kani::proof]
#[kani::unwind(10)]
#[kani::stub(weechess_core::MoveGenerator::compute_legal_moves, stub_compute_legal_moves)]
#[kani::stub(weechess_core::MoveSet::is_empty, stub_is_empty)]
#[kani::stub(weechess_core::PseudoLegalMove::try_as_legal_move, stub_try_as_legal_move)]
#[kani::stub(weechess_core::Board::colored_attacks, stub_colored_attacks)]
#[kani::stub(weechess_core::AttackGenerator::compute_king_attacks, stub_king_attacks)]
fn c13_evaluate_is_antisymmetric() {
    antisymmetry_obligation(8)
}

fn antisymmetry_obligation(max_king_neighbours: u32) {
    unsafe {
        HAS_LEGAL_MOVE = kani::any();
        ORACLE = kani::any();
        if max_king_neighbours == 0 {
            ORACLE[1] = 0; // concretely no candidate king step: the shortcut loop is pruned by symbolic execution
        }
        kani::assume(ORACLE[1].count_ones() <= max_king_neighbours);
        TERMS = kani::any();
        let mut i = 0;
        while i < 8 {
            kani::assume(TERMS[i] >= -100_000 && TERMS[i] <= 100_000);
            i += 1;
        }
    }
    let wk: u8 = kani::any();
    let bk: u8 = kani::any();
    kani::assume(wk < 64 && bk < 64 && wk != bk);
    let mut p = [BitBoard::ZERO; 16];
    p[6] = BitBoard::new(1u64 << wk);
    p[14] = BitBoard::new(1u64 << bk);
    let state = State::new(
        Board::new(ArrayMap::new(p)),
        if kani::any() { Color::White } else { Color::Black },
        ArrayMap::new([weechess_core::CastleRights::NONE, weechess_core::CastleRights::NONE]),
        None,
        weechess_core::Clock { halfmove_clock: 0, fullmove_number: 1 },
    );
    let depth: usize = kani::any();
    let evaluator = Evaluator { fns: if max_king_neighbours == 0 { ABSTRACT_TERMS_QUICK } else { ABSTRACT_TERMS } };
    let w = evaluator.evaluate(&state, Color::White, depth);
    let b = evaluator.evaluate(&state, Color::Black, depth);
    assert!(w == -b);
    kani::cover!(w > Evaluation::EVEN && !w.is_terminal(), "heuristic score reachable");
    kani::cover!(w.is_terminal(), "mate score reachable");
}

#[kani::proof]
#[kani::unwind(10)]
#[kani::stub(weechess_core::MoveGenerator::compute_legal_moves, stub_compute_legal_moves)]
#[kani::stub(weechess_core::MoveSet::is_empty, stub_is_empty)]
#[kani::stub(weechess_core::PseudoLegalMove::try_as_legal_move, stub_try_as_legal_move)]
#[kani::stub(weechess_core::Board::colored_attacks, stub_colored_attacks)]
#[kani::stub(weechess_core::AttackGenerator::compute_king_attacks, stub_king_attacks)]
fn c13_evaluate_is_antisymmetric_quick() {
    antisymmetry_obligation(0)
}

// ---- (c) mirror invariance of the real terms ----------------------------------------------------------------------------

fn flip(b: u64) -> u64 {
    b.swap_bytes() // rank r <-> rank 7-r, files unchanged
}

/// mirrored position: ranks flipped, colours swapped, side to move swapped
fn mirror_boards(p: &[u64; 16]) -> [u64; 16] {
    let mut q = [0u64; 16];
    let mut k = 1;
    while k <= 6 {
        q[k] = flip(p[8 + k]);
        q[8 + k] = flip(p[k]);
        k += 1;
    }
    q
}

fn mk_state(p: &[u64; 16], turn: Color) -> State {
    let b = BitBoard::new;
    State::new(
        Board::new(ArrayMap::new([
            b(p[0]), b(p[1]), b(p[2]), b(p[3]), b(p[4]), b(p[5]), b(p[6]), b(p[7]),
            b(p[8]), b(p[9]), b(p[10]), b(p[11]), b(p[12]), b(p[13]), b(p[14]), b(p[15]),
        ])),
        turn,
        ArrayMap::new([weechess_core::CastleRights::NONE, weechess_core::CastleRights::NONE]),
        None,
        weechess_core::Clock { halfmove_clock: 0, fullmove_number: 1 },
    )
}

fn any_disjoint_boards() -> [u64; 16] {
    let p: [u64; 16] = kani::any();
    kani::assume(p[0] == 0 && p[7] == 0 && p[8] == 0 && p[15] == 0);
    let u1 = p[1];
    let u2 = u1 | p[2];
    let u3 = u2 | p[3];
    let u4 = u3 | p[4];
    let u5 = u4 | p[5];
    let u6 = u5 | p[6];
    let u9 = u6 | p[9];
    let u10 = u9 | p[10];
    let u11 = u10 | p[11];
    let u12 = u11 | p[12];
    let u13 = u12 | p[13];
    kani::assume(
        p[2] & u1 == 0 && p[3] & u2 == 0 && p[4] & u3 == 0 && p[5] & u4 == 0 && p[6] & u5 == 0 && p[9] & u6 == 0
            && p[10] & u9 == 0 && p[11] & u10 == 0 && p[12] & u11 == 0 && p[13] & u12 == 0 && p[14] & u13 == 0,
    );
    p
}

/// the square table term: a piece of kind k on sq seen by White scores what the same piece on the flipped square
/// scores seen by Black -- all kinds, all squares, both game phases (weights 0 and 1) and the weight used by estimate
#[kani::proof]
fn c13_piece_square_mirror() {
    let k: u8 = kani::any();
    kani::assume(k >= 1 && k <= 6);
    let kind = Piece::try_from(k).unwrap();
    let s: u8 = kani::any();
    kani::assume(s < 64);
    let sq = Square::try_from(s).unwrap();
    let w: f32 = kani::any();
    kani::assume(w >= 0.0 && w <= 1.0);
    let a = evaluate_piece_squares::evaluate_piece_square(kind, sq, &Color::White, w);
    let b = evaluate_piece_squares::evaluate_piece_square(kind, sq.flip_rank(), &Color::Black, w);
    assert!(a == b);
    kani::cover!(kind == Piece::King && w > 0.5, "reachable");
}

/// StateVariation (piece counts, colour counts, end-game weight) of the mirrored position is the colour-swapped one
#[kani::proof]
#[kani::unwind(8)]
fn c13_variation_mirror() {
    let p = any_disjoint_boards();
    let q = mirror_boards(&p);
    let s1 = mk_state(&p, Color::White);
    let s2 = mk_state(&q, Color::Black);
    let v1 = StateVariation::from(&s1);
    let v2 = StateVariation::from(&s2);
    assert!(v1.end_game_weight == v2.end_game_weight || (v1.end_game_weight.is_nan() && v2.end_game_weight.is_nan()));
    assert!(v1.color_counts[Color::White] == v2.color_counts[Color::Black]);
    assert!(v1.color_counts[Color::Black] == v2.color_counts[Color::White]);
    let k: u8 = kani::any();
    kani::assume(k >= 1 && k <= 6);
    let kind = Piece::try_from(k).unwrap();
    assert!(v1.piece_counts[PieceIndex::new(Color::White, kind)] == v2.piece_counts[PieceIndex::new(Color::Black, kind)]);
    kani::cover!(v1.end_game_weight > 0.5, "reachable");
}

fn term_mirror(f: EvaluationFunction) {
    let p = any_disjoint_boards();
    // one king each (the king-edge term reads the first king only)
    kani::assume(p[6].count_ones() == 1 && p[14].count_ones() == 1);
    let q = mirror_boards(&p);
    let s1 = mk_state(&p, Color::White);
    let s2 = mk_state(&q, Color::Black);
    let v1 = StateVariation::from(&s1);
    let v2 = StateVariation::from(&s2);
    let persp = if kani::any() { Color::White } else { Color::Black };
    let mut e1 = Evaluation::EVEN;
    let mut e2 = Evaluation::EVEN;
    let mut stop = false;
    f(&v1, &persp, &mut e1, &mut stop);
    f(&v2, &!persp, &mut e2, &mut stop);
    assert!(e1 == e2);
    assert!(!stop);
    kani::cover!(e1 != Evaluation::EVEN, "non-zero term reachable");
}

#[kani::proof]
#[kani::unwind(10)]
fn c13_piece_worths_mirror() {
    term_mirror(evaluate_piece_worths::evaluate)
}

#[kani::proof]
#[kani::unwind(10)]
fn c13_bad_pawns_mirror() {
    term_mirror(evaluate_bad_pawns::evaluate)
}

#[kani::proof]
#[kani::unwind(10)]
fn c13_king_edge_mirror() {
    term_mirror(evaluate_force_king_to_edge::evaluate)
}

// ---- the square-table term of a whole position: a sum with one summand per own piece --------------------------------------

static mut PS_SPIKE: [u64; 4] = [0; 4]; // kind, square, perspective (0 white / 1 black) | weight bits << 8, value

/// abstract per-piece score: X at one symbolic (kind, square, perspective, weight), 0 elsewhere
fn stub_piece_square(piece: Piece, square: Square, perspective: &Color, end_game_weight: f32) -> Evaluation {
    let z = unsafe { PS_SPIKE };
    let k: u8 = piece.into();
    let s: u8 = square.into();
    let persp = if *perspective == Color::White { 0u64 } else { 1u64 };
    if k as u64 == z[0] && s as u64 == z[1] && (persp | ((end_game_weight.to_bits() as u64) << 8)) == z[2] {
        Evaluation(z[3] as i32)
    } else {
        Evaluation(0)
    }
}

/// evaluate_piece_squares::evaluate adds, for every own piece (<= 3 per kind here), exactly the per-piece score of (its
/// kind, its square, the perspective, the position's game-phase weight), once, and nothing else: with the per-piece score
/// X at one symbolic argument tuple and 0 elsewhere the term is X exactly when that piece stands on that square.  So the
/// term is the SUM over the own pieces of evaluate_piece_square; with c13_piece_square_mirror (each summand is
/// mirror-invariant) and c13_variation_mirror (so is the weight) the term of the mirrored position is the same sum over the
/// mirrored pieces (i32 addition is commutative; |sum| <= 32 * 50, no overflow).
#[kani::proof]
#[kani::unwind(8)]
#[kani::stub(evaluate_piece_squares::evaluate_piece_square, stub_piece_square)]
fn c13_piece_squares_is_a_sum_over_pieces() {
    unsafe {
        PS_SPIKE = kani::any();
        kani::assume((PS_SPIKE[3] as i32) > -100_000 && (PS_SPIKE[3] as i32) < 100_000);
    }
    let p = any_disjoint_boards();
    let persp = if kani::any() { Color::White } else { Color::Black };
    let base = if persp == Color::White { 0 } else { 8 };
    kani::assume(
        p[base + 1].count_ones() <= 3 && p[base + 2].count_ones() <= 3 && p[base + 3].count_ones() <= 3
            && p[base + 4].count_ones() <= 3 && p[base + 5].count_ones() <= 3 && p[base + 6].count_ones() <= 3,
    );
    let state = mk_state(&p, if kani::any() { Color::White } else { Color::Black });
    let v = StateVariation::from(&state);
    let e0: i32 = kani::any();
    kani::assume(e0 > -100_000 && e0 < 100_000);
    let mut eval = Evaluation(e0);
    let mut stop = false;
    evaluate_piece_squares::evaluate(&v, &persp, &mut eval, &mut stop);
    let z = unsafe { PS_SPIKE };
    let persp_bits = (if persp == Color::White { 0u64 } else { 1u64 }) | ((v.end_game_weight.to_bits() as u64) << 8);
    let hit = z[0] >= 1 && z[0] <= 6 && z[1] < 64 && z[2] == persp_bits && (p[base + z[0] as usize] >> z[1]) & 1 == 1;
    let got: i32 = eval.into();
    assert!(got == e0 + if hit { z[3] as i32 } else { 0 });
    assert!(!stop);
    kani::cover!(hit && z[3] as i32 != 0, "spike hit reachable");
    kani::cover!(!hit, "miss reachable");
}
