//! C01 -- legal move generation is exactly the rules of chess: per-function contracts K1..K5 of the generator.
//! Child module of `weechess_core::movegen`.  The attack look-ups are replaced by an ABSTRACT attack function (their
//! geometric meaning is C09's contract; the attacked-square set is C10's contract; the successor is C02's contract).
use super::*;
use crate::verif_spec::*;
use crate::{Board, Clock, Color, Move, Piece, PieceIndex, Side, Square, State};

// a 32-byte static (an 8-byte `static mut u64` trips a Kani 0.68 deallocation artefact, see c05.rs)
static mut SEEDS: [u64; 4] = [0; 4];

/// abstract attack function with at most three targets per (kind, square, occupancy): three squares derived from two
/// symbolic seeds (bounded so that the destination loops stay small; the loops are the same loops for more targets)
fn abstract_targets(kind: u8, s: u8, occ: u64) -> u64 {
    let z = unsafe { SEEDS };
    let mix = z[0].rotate_left(s as u32) ^ z[1].rotate_left(kind as u32 * 5) ^ occ;
    bit((mix & 63) as u8) | bit(((mix >> 6) & 63) as u8) | bit(((mix >> 12) & 63) as u8)
}
fn stub_knight(s: Square) -> BitBoard {
    BitBoard::new(abstract_targets(2, sq_u8(s), 0))
}
fn stub_king(s: Square) -> BitBoard {
    BitBoard::new(abstract_targets(6, sq_u8(s), 0))
}
fn stub_bishop(s: Square, occ: BitBoard) -> BitBoard {
    BitBoard::new(abstract_targets(3, sq_u8(s), bb(occ)))
}
fn stub_rook(s: Square, occ: BitBoard) -> BitBoard {
    BitBoard::new(abstract_targets(4, sq_u8(s), bb(occ)))
}
fn stub_queen(s: Square, occ: BitBoard) -> BitBoard {
    BitBoard::new(abstract_targets(5, sq_u8(s), bb(occ)))
}
/// abstract attacked-square set of a colour on a board (C10's contract gives its meaning)
fn abstract_attacked(b: &Board, c: Color) -> u64 {
    let z = unsafe { SEEDS };
    z[2].rotate_left(color_u8(c) as u32 * 17) ^ bb(b.occupancy()).rotate_left(11) ^ bb(b.colored_occupancy(c)) ^ z[3]
}
fn stub_colored_attacks(b: &Board, c: Color) -> BitBoard {
    BitBoard::new(abstract_attacked(b, c))
}

fn occ_of(p: &[u64; 16]) -> u64 {
    p[1] | p[2] | p[3] | p[4] | p[5] | p[6] | p[9] | p[10] | p[11] | p[12] | p[13] | p[14]
}
fn own_of(p: &[u64; 16], c: Color) -> u64 {
    let b = color_u8(c) as usize * 8;
    p[b + 1] | p[b + 2] | p[b + 3] | p[b + 4] | p[b + 5] | p[b + 6]
}
/// kind (1..6) of the piece of colour c on square t, 0 if none -- loop free
fn kind_at(p: &[u64; 16], c: Color, t: u8) -> u8 {
    let b = color_u8(c) as usize * 8;
    let m = bit(t);
    if p[b + 1] & m != 0 {
        1
    } else if p[b + 2] & m != 0 {
        2
    } else if p[b + 3] & m != 0 {
        3
    } else if p[b + 4] & m != 0 {
        4
    } else if p[b + 5] & m != 0 {
        5
    } else if p[b + 6] & m != 0 {
        6
    } else {
        0
    }
}

fn any_state(max_own_per_kind: u32) -> ([u64; 16], State) {
    unsafe {
        SEEDS = kani::any();
    }
    let p: [u64; 16] = kani::any();
    kani::assume(boards_wf_unrolled(&p));
    let turn = any_color();
    let b = color_u8(turn) as usize * 8;
    kani::assume(
        p[b + 1].count_ones() <= max_own_per_kind
            && p[b + 2].count_ones() <= max_own_per_kind
            && p[b + 3].count_ones() <= max_own_per_kind
            && p[b + 4].count_ones() <= max_own_per_kind
            && p[b + 5].count_ones() <= max_own_per_kind
            && p[b + 6].count_ones() <= 1,
    );
    let state = State::new(
        board_from(&p),
        turn,
        any_rights(),
        any_opt_square(),
        Clock { halfmove_clock: any_clock(), fullmove_number: any_clock() },
    );
    (p, state)
}

/// machine range: the clocks can still be incremented
fn any_clock() -> usize {
    let c: usize = kani::any();
    kani::assume(c < usize::MAX);
    c
}

fn plain(mv: &Move) -> bool {
    mv.promotion().is_none() && !mv.is_en_passant() && mv.castle_side().is_none() && !mv.is_double_pawn()
}

// =====================================================================================================================
// K2: expand_moves under contract; the knight / bishop / rook / queen generators checked against that contract
// =====================================================================================================================

/// GameStateHelper::expand_moves(origin, destinations, kind): appends exactly one move per destination square, in
/// ascending square order: a capture of the kind standing there if the square is occupied, a plain move otherwise;
/// nothing else in `result` changes.  Fully symbolic position, <= 3 destination squares.
#[kani::proof]
#[kani::unwind(8)]
fn c01_k2_expand_moves_contract() {
    let (p, state) = any_state(10);
    let turn = state.turn_to_move();
    let helper = GameStateHelper { state: &state };
    let origin = any_square();
    let kind = any_kind();
    let dest: u64 = kani::any();
    kani::assume(dest.count_ones() <= 3);
    let mut result: Vec<PseudoLegalMove> = Vec::with_capacity(8);
    let sentinel = Move::by_castling(Color::White, Side::King);
    result.push(PseudoLegalMove::new(sentinel));
    helper.expand_moves(origin, BitBoard::new(dest), kind, &mut result);
    assert!(result.len() == 1 + dest.count_ones() as usize);
    assert!(*result[0] == sentinel);
    // the k-th appended move goes to the k-th destination square
    let t: u8 = kani::any();
    kani::assume(t < 64 && dest & bit(t) != 0);
    let k = (dest & (bit(t) - 1)).count_ones() as usize;
    let mv: Move = *result[1 + k];
    assert!(mv.origin() == origin && sq_u8(mv.destination()) == t);
    assert!(mv.piece() == kind && mv.color() == turn);
    assert!(mv.promotion().is_none() && !mv.is_en_passant() && mv.castle_side().is_none());
    // capture kind = kind of whatever stands on the destination (either colour: the callers exclude own pieces)
    let occupant = if kind_at(&p, !turn, t) != 0 { kind_at(&p, !turn, t) } else { kind_at(&p, turn, t) };
    assert!(mv.capture().map_or(0, kind_u8) == occupant);
    kani::cover!(dest.count_ones() == 3 && occupant != 0, "three targets with a capture reachable");
}

// recording stub for expand_moves: the contract above is what callers may rely on; the generators are checked for
// calling it with exactly the right (origin, destinations, kind) for every own piece, in ascending square order
static mut CALLS: [u64; 16] = [0; 16]; // CALLS[0] = number of calls, then (origin, destinations, kind) triples

fn stub_expand_moves<'a>(_h: &GameStateHelper<'a>, origin: Square, destinations: BitBoard, piece: Piece, _r: &mut Vec<PseudoLegalMove>)
where
    'a: 'a, // early-bound, so that the stub has the same generics as the impl<'_> method
{
    unsafe {
        let n = CALLS[0] as usize;
        if n < 5 {
            CALLS[1 + 3 * n] = sq_u8(origin) as u64;
            CALLS[2 + 3 * n] = bb(destinations);
            CALLS[3 + 3 * n] = kind_u8(piece) as u64;
        }
        CALLS[0] += 1;
    }
}

fn piece_generator_obligation(kind: Piece) {
    let (p, state) = any_state(3);
    unsafe {
        CALLS = [0; 16];
    }
    let turn = state.turn_to_move();
    let helper = GameStateHelper { state: &state };
    let mut result: Vec<PseudoLegalMove> = Vec::new();
    match kind {
        Piece::Knight => MoveGenerator::compute_knight_moves(helper, &mut result),
        Piece::Bishop => MoveGenerator::compute_bishop_moves(helper, &mut result),
        Piece::Rook => MoveGenerator::compute_rook_moves(helper, &mut result),
        _ => MoveGenerator::compute_queen_moves(helper, &mut result),
    }
    let k = kind_u8(kind);
    let occ = occ_of(&p);
    let own = own_of(&p, turn);
    let a_occ = if kind == Piece::Knight { 0 } else { occ };
    let pieces = p[pidx(turn, kind)];
    let calls = unsafe { CALLS };
    // one call per own piece of the kind ...
    assert!(calls[0] == pieces.count_ones() as u64);
    // ... the j-th call is for the j-th such piece (ascending squares), with destinations A(piece) minus own pieces
    let s: u8 = kani::any();
    kani::assume(s < 64 && pieces & bit(s) != 0);
    let j = (pieces & (bit(s) - 1)).count_ones() as usize;
    assert!(calls[1 + 3 * j] == s as u64);
    assert!(calls[2 + 3 * j] == abstract_targets(k, s, a_occ) & !own);
    assert!(calls[3 + 3 * j] == k as u64);
    assert!(result.is_empty()); // everything goes through expand_moves
    kani::cover!(pieces.count_ones() == 3, "three pieces reachable");
}

macro_rules! piece_harness {
    ($name:ident, $kind:expr) => {
        #[kani::proof]
        #[kani::unwind(8)]
        #[kani::stub(crate::attacks::AttackGenerator::compute_knight_attacks, stub_knight)]
        #[kani::stub(crate::attacks::AttackGenerator::compute_bishop_attacks, stub_bishop)]
        #[kani::stub(crate::attacks::AttackGenerator::compute_rook_attacks, stub_rook)]
        #[kani::stub(crate::attacks::AttackGenerator::compute_queen_attacks, stub_queen)]
        #[kani::stub(crate::movegen::GameStateHelper::expand_moves, stub_expand_moves)]
        fn $name() {
            piece_generator_obligation($kind)
        }
    };
}
piece_harness!(c01_k2_knight_moves, Piece::Knight);
piece_harness!(c01_k2_bishop_moves, Piece::Bishop);
piece_harness!(c01_k2_rook_moves, Piece::Rook);
piece_harness!(c01_k2_queen_moves, Piece::Queen);

// =====================================================================================================================
// K3: king steps and the castling branch
// =====================================================================================================================

fn spec_castle(p: &[u64; 16], turn: Color, right: bool, side: Side, attacked: u64) -> bool {
    let r = home_rank(turn);
    // squares between king and rook must be empty; king's square, crossed square and destination must be unattacked
    let (path, check) = if side == Side::King {
        (bit(mk(5, r)) | bit(mk(6, r)), bit(mk(4, r)) | bit(mk(5, r)) | bit(mk(6, r)))
    } else {
        (bit(mk(1, r)) | bit(mk(2, r)) | bit(mk(3, r)), bit(mk(2, r)) | bit(mk(3, r)) | bit(mk(4, r)))
    };
    right && occ_of(p) & path == 0 && attacked & check == 0
}

#[kani::proof]
#[kani::unwind(8)]
#[kani::stub(crate::attacks::AttackGenerator::compute_king_attacks, stub_king)]
#[kani::stub(crate::board::Board::colored_attacks, stub_colored_attacks)]
#[kani::stub(crate::movegen::GameStateHelper::expand_moves, stub_expand_moves)]
fn c01_k3_king_moves_and_castling() {
    let (p, state) = any_state(3);
    unsafe {
        CALLS = [0; 16];
    }
    let turn = state.turn_to_move();
    let helper = GameStateHelper { state: &state };
    let mut result: Vec<PseudoLegalMove> = Vec::with_capacity(4);
    MoveGenerator::compute_king_moves(helper, &mut result);
    let attacked = abstract_attacked(state.board(), !turn);
    let own = own_of(&p, turn);
    // king steps: one expand_moves call for the king with A(king) minus own pieces minus attacked squares
    let kb = p[pidx(turn, Piece::King)];
    let calls = unsafe { CALLS };
    assert!(calls[0] == kb.count_ones() as u64);
    if kb != 0 {
        let from = kb.trailing_zeros() as u8;
        assert!(calls[1] == from as u64 && calls[3] == 6);
        assert!(calls[2] == abstract_targets(6, from, 0) & !own & !attacked);
    }
    // castling: pushed iff right & path empty & king, crossed and destination squares unattacked; king side first
    let want_k = spec_castle(&p, turn, state.castle_rights(turn).kingside, Side::King, attacked);
    let want_q = spec_castle(&p, turn, state.castle_rights(turn).queenside, Side::Queen, attacked);
    assert!(result.len() == want_k as usize + want_q as usize);
    if want_k {
        assert!(*result[0] == Move::by_castling(turn, Side::King));
    }
    if want_q {
        assert!(*result[want_k as usize] == Move::by_castling(turn, Side::Queen));
    }
    kani::cover!(want_k && want_q, "both castles reachable");
    kani::cover!(!want_k && state.castle_rights(turn).kingside, "refused castle reachable");
}

/// the castling constants name the squares the rules name
#[kani::proof]
fn c01_k3_castling_constants() {
    use crate::common::*;
    for (c, r) in [(Color::White, 0i8), (Color::Black, 7i8)] {
        assert!(sq_u8(KING_ORIGINS[c]) == mk(4, r));
        assert!(sq_u8(CASTLE_DESTS[c][Side::King]) == mk(6, r) && sq_u8(CASTLE_DESTS[c][Side::Queen]) == mk(2, r));
        assert!(bb(CASTLE_PATH_MASKS[Side::King][c]) == bit(mk(5, r)) | bit(mk(6, r)));
        assert!(bb(CASTLE_PATH_MASKS[Side::Queen][c]) == bit(mk(1, r)) | bit(mk(2, r)) | bit(mk(3, r)));
        assert!(bb(CASTLE_CHECK_MASKS[Side::King][c]) == bit(mk(4, r)) | bit(mk(5, r)) | bit(mk(6, r)));
        assert!(bb(CASTLE_CHECK_MASKS[Side::Queen][c]) == bit(mk(2, r)) | bit(mk(3, r)) | bit(mk(4, r)));
    }
    let mut f = 0;
    while f < 8 {
        assert!(bb(FILE_MASKS[crate::File::from_index(f).unwrap()]) == 0x0101_0101_0101_0101u64 << f);
        assert!(bb(RANK_MASKS[crate::Rank::from_index(f).unwrap()]) == 0xffu64 << (8 * f));
        f += 1;
    }
    kani::cover!(true, "reachable");
}

// =====================================================================================================================
// K1: pawn moves (pure shift logic, no tables)
// =====================================================================================================================

/// the rules for a pseudo-legal pawn move, in mailbox terms
fn spec_pawn_move(p: &[u64; 16], turn: Color, ep: Option<Square>, mv: &Move) -> bool {
    let (o, d) = (sq_u8(mv.origin()), sq_u8(mv.destination()));
    let occ = occ_of(p);
    let f = fwd(turn);
    let (df, dr) = (file_of(d) - file_of(o), rank_of(d) - rank_of(o));
    if mv.piece() != Piece::Pawn || mv.color() != turn || kind_at(p, turn, o) != 1 || mv.castle_side().is_some() {
        return false;
    }
    let last = rank_of(d) == last_rank(turn);
    let promo_ok = match mv.promotion() {
        Some(k) => last && (k == Piece::Queen || k == Piece::Rook || k == Piece::Bishop || k == Piece::Knight),
        None => !last,
    };
    if !promo_ok {
        return false;
    }
    if mv.is_en_passant() {
        return ep == Some(mv.destination()) && dr == f && (df == 1 || df == -1) && mv.capture() == Some(Piece::Pawn)
            && mv.promotion().is_none() && !mv.is_double_pawn();
    }
    if df == 0 {
        if mv.capture().is_some() {
            return false;
        }
        if dr == f {
            return occ & bit(d) == 0 && !mv.is_double_pawn();
        }
        if dr == 2 * f {
            let mid = mk(file_of(o), rank_of(o) + f);
            return rank_of(o) == home_rank(turn) + f && occ & bit(d) == 0 && occ & bit(mid) == 0 && mv.is_double_pawn()
                && mv.promotion().is_none();
        }
        return false;
    }
    // diagonal: an ordinary capture of the opposing piece standing there
    let victim = kind_at(p, !turn, d);
    (df == 1 || df == -1) && dr == f && victim != 0 && mv.capture().map_or(0, kind_u8) == victim && !mv.is_double_pawn()
}

/// which half of the contract a harness checks (split to keep each CBMC run small)
#[derive(Clone, Copy, PartialEq, Eq)]
enum Half {
    Sound,
    Complete,
}

fn pawn_obligation(max_pawns: u32, half: Half) {
    pawn_obligation_on(max_pawns, half, false, any_color())
}

/// `pushes_only`: no opposing piece on the board and no en-passant target, so that the four capture loops are
/// constant-folded away by symbolic execution and only pushes, double steps and promotions remain
fn pawn_obligation_on(max_pawns: u32, half: Half, pushes_only: bool, turn: Color) {
    unsafe {
        SEEDS = kani::any();
    }
    let mut p: [u64; 16] = kani::any();
    if pushes_only {
        let ob = color_u8(!turn) as usize * 8;
        let mut k = 1;
        while k <= 6 {
            p[ob + k] = 0;
            k += 1;
        }
    }
    kani::assume(boards_wf_unrolled(&p));
    let pawns = p[pidx(turn, Piece::Pawn)];
    // legal-position facts the generator relies on: no pawn on the first or last rank
    kani::assume(pawns & 0xff00_0000_0000_00ff == 0 && pawns.count_ones() <= max_pawns);
    let ep = if pushes_only { None } else { any_opt_square() };
    if let Some(t) = ep {
        // an en-passant target is an empty square on the sixth rank (from the mover's side) behind an enemy pawn
        let r = if turn == Color::White { 5 } else { 2 };
        kani::assume(rank_of(sq_u8(t)) == r && occ_of(&p) & bit(sq_u8(t)) == 0);
        kani::assume(kind_at(&p, !turn, mk(file_of(sq_u8(t)), r - fwd(turn))) == 1);
    }
    let state = State::new(board_from(&p), turn, any_rights(), ep, Clock { halfmove_clock: 0, fullmove_number: 1 });
    let helper = GameStateHelper { state: &state };
    let mut result: Vec<PseudoLegalMove> = Vec::with_capacity(128);
    MoveGenerator::compute_pawn_moves(helper, &mut result);
    let cap = 12 * max_pawns as usize;
    assert!(result.len() <= cap);
    let (c_ep, c_promo, c_double);
    if half == Half::Sound {
        // soundness + exact attributes + no duplicates
        let i: usize = kani::any();
        if i < result.len() {
            let mv: Move = *result[i];
            assert!(spec_pawn_move(&p, turn, ep, &mv));
            let j: usize = kani::any();
            if j < result.len() && j != i {
                assert!(*result[j] != mv);
            }
        }
        c_ep = pushes_only || (i < result.len() && result[i].is_en_passant());
        c_promo = i < result.len() && result[i].is_promotion() && (pushes_only || result[i].is_capture());
        c_double = i < result.len() && result[i].is_double_pawn();
    } else {
        // completeness: any move value that the rules allow is in the list (scan written as nested short loops so that
        // the global unwind bound can stay small)
        let cand: Move = kani::any();
        let wanted = spec_pawn_move(&p, turn, ep, &cand);
        let mut found = false;
        let mut a = 0;
        while a < 3 * max_pawns as usize {
            let mut b = 0;
            while b < 4 {
                let n = 4 * a + b;
                if n < result.len() && *result[n] == cand {
                    found = true;
                }
                b += 1;
            }
            a += 1;
        }
        assert!(!wanted || found);
        c_ep = pushes_only || (wanted && cand.is_en_passant());
        c_promo = wanted && cand.is_promotion();
        c_double = wanted && cand.is_double_pawn();
    }
    // (covers after the branch: a cover inside the branch not taken by this harness would be reported unreachable)
    kani::cover!(c_ep, "en passant reachable");
    kani::cover!(c_promo, "promotion reachable");
    kani::cover!(c_double, "double step reachable");
}

#[kani::proof]
#[kani::unwind(9)]
fn c01_k1_pawn_pushes_sound_white() {
    pawn_obligation_on(8, Half::Sound, true, Color::White)
}

#[kani::proof]
#[kani::unwind(9)]
fn c01_k1_pawn_pushes_sound_black() {
    pawn_obligation_on(8, Half::Sound, true, Color::Black)
}

#[kani::proof]
#[kani::unwind(9)]
fn c01_k1_pawn_pushes_complete_white() {
    pawn_obligation_on(2, Half::Complete, true, Color::White)
}

#[kani::proof]
#[kani::unwind(9)]
fn c01_k1_pawn_pushes_complete_black() {
    pawn_obligation_on(2, Half::Complete, true, Color::Black)
}

/// Model of Vec::push for a vector that has spare capacity (the harness allocates it with capacity 32 and this stub
/// asserts that it suffices): append in place.  Kani's own symbolic execution of std's push drags the whole growth path
/// (reserve / finish_grow / realloc / memcpy) into every one of the ~40 unrolled push sites of compute_pawn_moves, which
/// is what exhausted 30-40 GB; with this model the same obligation needs 1 M variables and 8 s of solver time.
fn stub_vec_push<T, A: std::alloc::Allocator>(v: &mut Vec<T, A>, value: T) {
    let len = v.len();
    assert!(len < v.capacity(), "the harness vector has spare capacity");
    unsafe {
        std::ptr::write(v.as_mut_ptr().add(len), value);
        v.set_len(len + 1);
    }
}

macro_rules! k1_harness {
    ($name:ident, $unwind:expr, $pawns:expr, $half:expr) => {
        #[kani::proof]
        #[kani::unwind($unwind)]
        #[kani::stub(crate::moves::Move::by_moving, crate::moves::verif_c20::contract_by_moving)]
        #[kani::stub(crate::moves::Move::by_capturing, crate::moves::verif_c20::contract_by_capturing)]
        #[kani::stub(crate::moves::Move::by_promoting, crate::moves::verif_c20::contract_by_promoting)]
        #[kani::stub(crate::moves::Move::by_capture_promoting, crate::moves::verif_c20::contract_by_capture_promoting)]
        #[kani::stub(crate::moves::Move::by_en_passant, crate::moves::verif_c20::contract_by_en_passant)]
        #[kani::stub(std::vec::Vec::push, stub_vec_push)]
        fn $name() {
            pawn_obligation($pawns, $half)
        }
    };
}
// K1 against the CONTRACTS of the five Move constructors (C20) instead of their bodies
k1_harness!(c01_k1_pawn_moves_sound, 8, 1, Half::Sound);
k1_harness!(c01_k1_pawn_moves_complete, 8, 1, Half::Complete);
k1_harness!(c01_k1_pawn_moves_sound_3, 10, 3, Half::Sound);
k1_harness!(c01_k1_pawn_moves_complete_3, 10, 3, Half::Complete);

#[kani::proof]
#[kani::unwind(8)]
fn c01_k1_pawn_moves_sound_1() {
    pawn_obligation(1, Half::Sound)
}

#[kani::proof]
#[kani::unwind(8)]
fn c01_k1_pawn_moves_complete_1() {
    pawn_obligation(1, Half::Complete)
}

#[kani::proof]
#[kani::unwind(10)]
fn c01_k1_pawn_moves_sound_2() {
    pawn_obligation(2, Half::Sound)
}

#[kani::proof]
#[kani::unwind(10)]
fn c01_k1_pawn_moves_complete_2_unstubbed() {
    pawn_obligation(2, Half::Complete)
}

// =====================================================================================================================
// K0: compute_psuedo_legal_moves_into runs the six generators once each on the same position, after clearing the list
// =====================================================================================================================

static mut SEQ: [u8; 32] = [0; 32]; // SEQ[0] = number of generator calls, SEQ[1..] = which generator (1 pawn .. 6 queen)

macro_rules! recording_generator {
    ($name:ident, $tag:expr) => {
        fn $name<'a>(_h: GameStateHelper<'a>, result: &mut Vec<PseudoLegalMove>) {
            unsafe {
                let n = SEQ[0] as usize;
                // every generator sees what the earlier ones produced (nothing was dropped) ...
                assert!(result.len() == n);
                if n < 8 {
                    SEQ[1 + n] = $tag;
                }
                SEQ[0] += 1;
            }
            // ... and appends its own moves (one marker move here)
            result.push(PseudoLegalMove::new(Move::by_castling(Color::White, Side::King)));
        }
    };
}
recording_generator!(rec_pawn, 1);
recording_generator!(rec_knight, 2);
recording_generator!(rec_king, 3);
recording_generator!(rec_bishop, 4);
recording_generator!(rec_rook, 5);
recording_generator!(rec_queen, 6);

#[kani::proof]
#[kani::unwind(9)]
#[kani::stub(crate::movegen::MoveGenerator::compute_pawn_moves, rec_pawn)]
#[kani::stub(crate::movegen::MoveGenerator::compute_knight_moves, rec_knight)]
#[kani::stub(crate::movegen::MoveGenerator::compute_king_moves, rec_king)]
#[kani::stub(crate::movegen::MoveGenerator::compute_bishop_moves, rec_bishop)]
#[kani::stub(crate::movegen::MoveGenerator::compute_rook_moves, rec_rook)]
#[kani::stub(crate::movegen::MoveGenerator::compute_queen_moves, rec_queen)]
#[kani::stub(std::vec::Vec::push, stub_vec_push)]
fn c01_k0_pseudo_legal_runs_all_six_generators() {
    unsafe {
        SEQ = [0; 32];
    }
    let mut p = [0u64; 16];
    p[6] = bit(4);
    p[14] = bit(60);
    let state = State::new(board_from(&p), any_color(), any_rights(), None, Clock { halfmove_clock: 0, fullmove_number: 1 });
    let mut result: Vec<PseudoLegalMove> = Vec::with_capacity(16);
    // stale content must be discarded
    result.push(PseudoLegalMove::new(Move::by_castling(Color::Black, Side::Queen)));
    MoveGenerator::compute_psuedo_legal_moves_into(&state, &mut result);
    let z = unsafe { SEQ };
    assert!(z[0] == 6 && result.len() == 6);
    // each of the six generators exactly once (the order is immaterial to the set of moves)
    let mut seen = [false; 7];
    let mut i = 1;
    while i <= 6 {
        assert!(z[i] >= 1 && z[i] <= 6 && !seen[z[i] as usize]);
        seen[z[i] as usize] = true;
        i += 1;
    }
    kani::cover!(true, "reachable");
}

// =====================================================================================================================
// K4: the legality filter
// =====================================================================================================================

#[kani::proof]
#[kani::unwind(18)]
#[kani::stub(crate::board::Board::colored_attacks, stub_colored_attacks)]
fn c01_k4_try_as_legal_move() {
    let (p, state) = any_state(10);
    let turn = state.turn_to_move();
    let mv: Move = kani::any();
    // any move by_performing_move accepts (its own contract is C02)
    let next = State::by_performing_move(&state, &mv);
    kani::assume(next.is_ok());
    let next = next.unwrap();
    let r = PseudoLegalMove::new(mv).try_as_legal_move(&state);
    let king = bb(next.board().piece_occupancy(PieceIndex::new(turn, Piece::King)));
    let attacked = abstract_attacked(next.board(), !turn);
    match &r {
        Some(MoveResult(m, s)) => {
            assert!(king & attacked == 0);
            assert!(*m == mv);
            let pi = PieceIndex(kani::any());
            kani::assume(pi.0 < 16);
            assert!(s.board().piece_occupancy(pi) == next.board().piece_occupancy(pi));
            assert!(s.turn_to_move() == next.turn_to_move());
            assert!(s.en_passant_target() == next.en_passant_target());
            assert!(s.castle_rights(Color::White) == next.castle_rights(Color::White));
            assert!(s.castle_rights(Color::Black) == next.castle_rights(Color::Black));
        }
        None => assert!(king & attacked != 0),
    }
    let _ = p;
    kani::cover!(r.is_some(), "legal reachable");
    kani::cover!(r.is_none(), "illegal reachable");
}

// =====================================================================================================================
// K5: compute_legal_moves_into is the order-preserving filter of the pseudo-legal list
// =====================================================================================================================

static mut PSEUDO: [u32; 4] = [0; 4]; // three raw move values + length
static mut ORACLE_CALLS: [u32; 4] = [0; 4]; // 0: number of try_as_legal_move calls so far, 1: accept pattern (bit i = i-th call)

fn stub_pseudo_into(_state: &State, result: &mut Vec<PseudoLegalMove>) {
    result.clear();
    let z = unsafe { PSEUDO };
    let mut i = 0;
    while i < 3 {
        if (i as u32) < z[3] {
            result.push(PseudoLegalMove::new(raw_move(z[i])));
        }
        i += 1;
    }
}
fn raw_move(raw: u32) -> Move {
    crate::moves::verif_c20::move_from_raw(raw)
}
/// the legality oracle, answering the i-th question by bit i of a CONCRETE pattern (so that the length of the legal
/// list is concrete at every push and Vec never has to consider growing by a symbolic amount)
fn stub_try_as_legal(mv: PseudoLegalMove, state: &State) -> Option<MoveResult> {
    let (n, pattern) = unsafe { (ORACLE_CALLS[0], ORACLE_CALLS[1]) };
    unsafe {
        ORACLE_CALLS[0] = n + 1;
    }
    if (pattern >> n) & 1 == 1 {
        Some(MoveResult(*mv, state.clone()))
    } else {
        None
    }
}

#[kani::proof]
#[kani::unwind(9)]
#[kani::stub(crate::movegen::MoveGenerator::compute_psuedo_legal_moves_into, stub_pseudo_into)]
#[kani::stub(crate::movegen::PseudoLegalMove::try_as_legal_move, stub_try_as_legal)]
#[kani::stub(std::vec::Vec::push, stub_vec_push)]
fn c01_k5_legal_moves_is_filter() {
    unsafe {
        PSEUDO = kani::any();
        PSEUDO[3] = 3;
        kani::assume(crate::moves::verif_c20::valid_raw(PSEUDO[0]));
        kani::assume(crate::moves::verif_c20::valid_raw(PSEUDO[1]));
        kani::assume(crate::moves::verif_c20::valid_raw(PSEUDO[2]));
    }
    let mut p = [0u64; 16];
    p[6] = bit(4);
    p[14] = bit(60);
    let state = State::new(board_from(&p), any_color(), any_rights(), None, Clock { halfmove_clock: 0, fullmove_number: 1 });
    let z = unsafe { PSEUDO };
    // every accept/reject pattern over a pseudo-legal list of three arbitrary moves
    let mut pattern: u32 = 0;
    while pattern < 8 {
        unsafe {
            ORACLE_CALLS = [0, pattern, 0, 0];
        }
        let mut buffer = MoveGenerationBuffer { legal_moves: Vec::with_capacity(4), psuedo_legal_moves: Vec::with_capacity(4) };
        // stale content must not leak into the answer
        buffer.psuedo_legal_moves.push(PseudoLegalMove::new(raw_move(z[0])));
        MoveGenerator::compute_legal_moves_into(&state, &mut buffer);
        // exactly one legality question per pseudo-legal move, in list order
        assert!(unsafe { ORACLE_CALLS[0] } == 3);
        let mut n = 0;
        let mut i = 0;
        while i < 3 {
            if (pattern >> i) & 1 == 1 {
                assert!(n < buffer.legal_moves.len() && buffer.legal_moves[n].0.as_raw() == z[i]);
                n += 1;
            }
            i += 1;
        }
        assert!(buffer.legal_moves.len() == n);
        pattern += 1;
    }
    kani::cover!(true, "reachable");
}
