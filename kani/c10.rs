//! C10 -- check detection and attacked-square sets.  Child module of `weechess_core::board`.
//! The callee `AttackGenerator::compute` is replaced by an ABSTRACT attack function A(piece, square, occupancy)
//! (its geometric meaning is C09's contract); the obligations state that the attack map is the union of A over the
//! own pieces minus the own pieces.
use super::*;
use crate::verif_spec::*;
use crate::{Color, Piece, PieceIndex, Square};

// NOTE: statics of 32 bytes or more (an 8-byte `static mut u64` trips a Kani 0.68 deallocation artefact, see c05.rs)
static mut SEEDS: [u64; 16] = [0; 16];

/// the abstract attack function: one symbolic 64-bit pattern per piece index, mixed with the square and the occupancy
/// (so that a wrong piece, a wrong square or a wrong occupancy handed to the callee changes the result); kept free of
/// multiplications and symbolic rotations so that 64 evaluations of it stay cheap for the solver
fn abstract_attacks(piece: u8, square: u8, occ: u64) -> u64 {
    let s = unsafe { SEEDS };
    s[(piece & 15) as usize] ^ (1u64 << square) ^ (occ & s[0]) ^ (occ >> 1 & s[15])
}

fn stub_compute(piece: PieceIndex, square: Square, occupancy: BitBoard) -> BitBoard {
    BitBoard::new(abstract_attacks(piece.0, sq_u8(square), bb(occupancy)))
}

/// spec contribution of square s: A(kind on s, s, occ) if an own piece stands on s (pawns only when `pawns_only`)
fn contrib(p: &[u64; 16], c: Color, s: u8, occ: u64, pawns_only: bool) -> u64 {
    let base = color_u8(c) as usize * 8;
    let b = bit(s);
    let k: u8 = if p[base + 1] & b != 0 {
        1
    } else if p[base + 2] & b != 0 {
        2
    } else if p[base + 3] & b != 0 {
        3
    } else if p[base + 4] & b != 0 {
        4
    } else if p[base + 5] & b != 0 {
        5
    } else if p[base + 6] & b != 0 {
        6
    } else {
        0
    };
    if k == 0 || (pawns_only && k != 1) {
        0
    } else {
        abstract_attacks(base as u8 + k, s, occ)
    }
}

macro_rules! or8 {
    ($f:expr, $b:expr) => {
        $f($b) | $f($b + 1) | $f($b + 2) | $f($b + 3) | $f($b + 4) | $f($b + 5) | $f($b + 6) | $f($b + 7)
    };
}

/// union over all 64 squares, written without a loop (so that the global unwind bound only limits the piece counts)
fn spec_union(p: &[u64; 16], c: Color, occ: u64, pawns_only: bool) -> u64 {
    let f = |s: u8| contrib(p, c, s, occ, pawns_only);
    or8!(f, 0) | or8!(f, 8) | or8!(f, 16) | or8!(f, 24) | or8!(f, 32) | or8!(f, 40) | or8!(f, 48) | or8!(f, 56)
}

fn any_position(max_per_kind: u32) -> ([u64; 16], Color) {
    unsafe {
        SEEDS = kani::any();
    }
    let p: [u64; 16] = kani::any();
    kani::assume(boards_wf_unrolled(&p));
    let c = any_color();
    let base = color_u8(c) as usize * 8;
    kani::assume(
        p[base + 1].count_ones() <= max_per_kind
            && p[base + 2].count_ones() <= max_per_kind
            && p[base + 3].count_ones() <= max_per_kind
            && p[base + 4].count_ones() <= max_per_kind
            && p[base + 5].count_ones() <= max_per_kind
            && p[base + 6].count_ones() <= max_per_kind,
    );
    (p, c)
}

fn union_color_unrolled(p: &[u64; 16], c: Color) -> u64 {
    let b = color_u8(c) as usize * 8;
    p[b + 1] | p[b + 2] | p[b + 3] | p[b + 4] | p[b + 5] | p[b + 6]
}

// ---- loop-free, complete: check detection on top of the attacked-set contract -----------------------------------------

static mut ATTACKED: [u64; 4] = [0; 4]; // attacked set of White, of Black

fn stub_colored_attacks(_b: &Board, c: Color) -> BitBoard {
    BitBoard::new(unsafe { ATTACKED[color_u8(c) as usize] })
}

/// Board::is_check(c) <=> a king of colour c stands on a square in colored_attacks(!c); State::is_check is that for the
/// side to move.  The attacked sets are arbitrary (contract of colored_attacks), the position is fully symbolic, and
/// there is no loop: this obligation is complete.
#[kani::proof]
#[kani::stub(crate::board::Board::colored_attacks, stub_colored_attacks)]
fn c10_is_check_contract() {
    unsafe {
        ATTACKED = kani::any();
    }
    let p: [u64; 16] = kani::any();
    kani::assume(boards_wf_unrolled(&p));
    let board = board_from(&p);
    let c = any_color();
    let attacked_by_opponent = unsafe { ATTACKED[color_u8(!c) as usize] };
    assert!(board.is_check(c) == (p[pidx(c, Piece::King)] & attacked_by_opponent != 0));
    let state = crate::State::new(
        board_from(&p),
        c,
        any_rights(),
        any_opt_square(),
        crate::Clock { halfmove_clock: kani::any(), fullmove_number: kani::any() },
    );
    assert!(state.is_check() == board.is_check(c));
    kani::cover!(board.is_check(c), "check reachable");
    kani::cover!(!board.is_check(c) && p[pidx(c, Piece::King)] != 0, "no check reachable");
}

// ---- from_occupancy with a SPIKE attack function: exact and cheap -------------------------------------------------------
// A(piece, square, occ) = X if (piece, square, occ) is one symbolic triple, else 0.  For every position (<= 5 own pieces
// per kind) the attack map must then be exactly X & !own when that piece stands on that square (and the occupancy handed
// to the callee is the board's), and empty otherwise: each piece contributes exactly its own attack set, computed with the
// right arguments, and nothing else contributes.  Together with the OR-structure of the loop this is the union formula.

static mut SPIKE: [u64; 4] = [0; 4]; // piece index, square, occupancy, value

fn stub_compute_spike(piece: PieceIndex, square: Square, occupancy: BitBoard) -> BitBoard {
    let z = unsafe { SPIKE };
    if piece.0 as u64 == z[0] && sq_u8(square) as u64 == z[1] && bb(occupancy) == z[2] {
        BitBoard::new(z[3])
    } else {
        BitBoard::ZERO
    }
}

/// what the spike function contributes to colour c's attack map on position p
fn spike_expect(p: &[u64; 16], c: Color, pawns_only: bool) -> u64 {
    let z = unsafe { SPIKE };
    let base = color_u8(c) as u64 * 8;
    let occ = p[1] | p[2] | p[3] | p[4] | p[5] | p[6] | p[9] | p[10] | p[11] | p[12] | p[13] | p[14];
    let hit = z[0] >= base + 1 && z[0] <= base + 6 && z[1] < 64 && p[(z[0] & 15) as usize] & (1u64 << (z[1] & 63)) != 0 && z[2] == occ;
    if hit && (!pawns_only || z[0] == base + 1) {
        z[3] & !union_color_unrolled(p, c)
    } else {
        0
    }
}

fn spike_position(max_per_kind: u32) -> [u64; 16] {
    unsafe {
        SPIKE = kani::any();
    }
    let p: [u64; 16] = kani::any();
    kani::assume(boards_wf_unrolled(&p));
    kani::assume(
        p[1].count_ones() <= max_per_kind && p[2].count_ones() <= max_per_kind && p[3].count_ones() <= max_per_kind
            && p[4].count_ones() <= max_per_kind && p[5].count_ones() <= max_per_kind && p[6].count_ones() <= max_per_kind
            && p[9].count_ones() <= max_per_kind && p[10].count_ones() <= max_per_kind && p[11].count_ones() <= max_per_kind
            && p[12].count_ones() <= max_per_kind && p[13].count_ones() <= max_per_kind && p[14].count_ones() <= max_per_kind,
    );
    p
}

#[kani::proof]
#[kani::unwind(8)]
#[kani::stub(crate::attacks::AttackGenerator::compute, stub_compute_spike)]
fn c10_from_occupancy_spike() {
    from_occupancy_spike(3)
}

#[kani::proof]
#[kani::unwind(12)]
#[kani::stub(crate::attacks::AttackGenerator::compute, stub_compute_spike)]
fn c10_from_occupancy_spike_10() {
    from_occupancy_spike(10)
}

/// Board level: colored_attacks / colored_pawn_attacks are from_occupancy of the board's own (immutable) fields, and the
/// lazily cached answers do not depend on the order of the queries or on cloning before/after a query.
#[kani::proof]
#[kani::unwind(8)]
#[kani::stub(crate::attacks::AttackGenerator::compute, stub_compute_spike)]
fn c10_board_queries_contract() {
    let p = spike_position(5);
    let board = board_from(&p);
    let spec_w = spike_expect(&p, Color::White, false);
    let spec_b = spike_expect(&p, Color::Black, false);
    let spec_wp = spike_expect(&p, Color::White, true);
    // clone BEFORE any query, then query in one order on the original and in the other order on the clone
    let early_clone = board.clone();
    let w1 = bb(board.colored_attacks(Color::White));
    let b1 = bb(board.colored_attacks(Color::Black));
    let b2 = bb(early_clone.colored_attacks(Color::Black));
    let w2 = bb(early_clone.colored_attacks(Color::White));
    assert!(w1 == spec_w && b1 == spec_b && w2 == spec_w && b2 == spec_b);
    // asking again (now served from the cache) and asking a clone taken AFTER the queries
    let late_clone = board.clone();
    assert!(bb(board.colored_attacks(Color::White)) == spec_w);
    assert!(bb(late_clone.colored_attacks(Color::White)) == spec_w && bb(late_clone.colored_attacks(Color::Black)) == spec_b);
    assert!(bb(board.colored_pawn_attacks(Color::White)) == spec_wp);
    // check detection through the real (cached) attack maps
    assert!(board.is_check(Color::White) == (p[6] & spec_b != 0));
    assert!(late_clone.is_check(Color::Black) == (p[14] & spec_w != 0));
    kani::cover!(board.is_check(Color::White), "check reachable");
    kani::cover!(spec_w != 0 && spec_b == 0, "white spike reachable");
}

/// the same statement with fewer queries (quick tier): one colour, original vs. clone taken before vs. clone taken after
#[kani::proof]
#[kani::unwind(8)]
#[kani::stub(crate::attacks::AttackGenerator::compute, stub_compute_spike)]
fn c10_board_queries_quick() {
    let p = spike_position(3);
    let board = board_from(&p);
    let c = any_color();
    let spec = spike_expect(&p, c, false);
    let early_clone = board.clone();
    let a1 = bb(board.colored_attacks(c));
    let late_clone = board.clone();
    // the king of the other colour is in check exactly when it stands on an attacked square -- asked BEFORE the early
    // clone has computed anything, and answered by the late clone from its copied cache
    assert!(early_clone.is_check(!c) == (p[pidx(!c, Piece::King)] & spec != 0));
    assert!(late_clone.is_check(!c) == (p[pidx(!c, Piece::King)] & spec != 0));
    assert!(a1 == spec && bb(early_clone.colored_attacks(c)) == spec && bb(late_clone.colored_attacks(c)) == spec);
    assert!(bb(board.colored_attacks(c)) == spec);
    kani::cover!(spec != 0 && early_clone.is_check(!c), "check reachable");
}

fn from_occupancy_spike(max_per_kind: u32) {
    let p = spike_position(max_per_kind);
    let c = any_color();
    let base = color_u8(c) as usize * 8;
    let occ = p[1] | p[2] | p[3] | p[4] | p[5] | p[6] | p[9] | p[10] | p[11] | p[12] | p[13] | p[14];
    let own = union_color_unrolled(&p, c);
    let b = BitBoard::new;
    let map = crate::utils::ArrayMap::new([
        b(p[0]), b(p[1]), b(p[2]), b(p[3]), b(p[4]), b(p[5]), b(p[6]), b(p[7]),
        b(p[8]), b(p[9]), b(p[10]), b(p[11]), b(p[12]), b(p[13]), b(p[14]), b(p[15]),
    ]);
    let m = AttackMap::from_occupancy(c, &map, BitBoard::new(occ), BitBoard::new(own));
    let z = unsafe { SPIKE };
    let k = z[0].wrapping_sub(base as u64); // kind of the spike piece if it is one of this colour's
    let hit = z[0] >= base as u64 + 1 && z[0] <= base as u64 + 6 && z[1] < 64 && p[(z[0] & 15) as usize] & (1u64 << (z[1] & 63)) != 0 && z[2] == occ;
    let expect = if hit { z[3] & !own } else { 0 };
    assert!(bb(m.all) == expect);
    assert!(bb(m.pawn) == if hit && k == 1 { expect } else { 0 });
    kani::cover!(hit && k == 1 && expect != 0, "pawn spike reachable");
    kani::cover!(hit && k == 5 && expect != 0, "queen spike reachable");
    kani::cover!(!hit && own != 0, "miss reachable");
}

// ---- positions reached by a move: the successor's answers are those of its own placement ------------------------------

/// `State::by_performing_move` builds the successor's board; whatever the parent had already been asked (its lazily
/// cached maps are populated here, both colours), the successor answers colored_attacks / colored_pawn_attacks / is_check
/// exactly as a board built from scratch from the successor's own placement does -- a cache can never be carried over
/// to a position it does not describe.  Fully symbolic position (<= 2 pieces per kind and colour), fully symbolic move
/// consistent with it (every move class), spike attack function.
#[kani::proof]
#[kani::unwind(66)]
#[kani::stub(crate::attacks::AttackGenerator::compute, stub_compute_spike)]
fn c10_successor_answers_are_fresh() {
    successor_obligation(2)
}

/// thorough tier: the same with up to three pieces per kind and colour
#[kani::proof]
#[kani::unwind(66)]
#[kani::stub(crate::attacks::AttackGenerator::compute, stub_compute_spike)]
fn c10_successor_answers_are_fresh_3() {
    successor_obligation(3)
}

fn successor_obligation(max_per_kind: u32) {
    use crate::state::verif_c02::{consistent, rights_wf};
    let p = spike_position(max_per_kind);
    let turn = any_color();
    let rights = any_rights();
    let ep = any_opt_square();
    let mv: crate::Move = kani::any();
    kani::assume(consistent(&p, turn, ep, &mv));
    kani::assume(rights_wf(&p, &rights));
    let half: usize = kani::any();
    let full: usize = kani::any();
    kani::assume(half < usize::MAX && full < usize::MAX);
    let state = crate::State::new(board_from(&p), turn, rights, ep, crate::Clock { halfmove_clock: half, fullmove_number: full });
    // the parent has been queried before the move, in a symbolic subset of the possible ways
    if kani::any() {
        let _ = state.board().colored_attacks(Color::White);
    }
    if kani::any() {
        let _ = state.board().colored_attacks(Color::Black);
    }
    let next = crate::State::by_performing_move(&state, &mv).unwrap();
    let q = boards_of(next.board());
    let c = any_color();
    let fresh = board_from(&q);
    assert!(bb(next.board().colored_attacks(c)) == bb(fresh.colored_attacks(c)));
    assert!(bb(next.board().colored_pawn_attacks(c)) == bb(fresh.colored_pawn_attacks(c)));
    assert!(next.board().is_check(!c) == fresh.is_check(!c));
    kani::cover!(mv.is_en_passant(), "en passant reachable");
    kani::cover!(mv.is_any_castle(), "castling reachable");
    kani::cover!(bb(fresh.colored_attacks(c)) != 0, "non-empty successor map reachable");
}
