//! C10 -- check detection and attacked-square sets.  Child module of `weechess_core::board`.
//! The callee `AttackGenerator::compute` is replaced by an ABSTRACT attack function A(piece, square, occupancy)
//! (its geometric meaning is C09's contract); the obligations state that the attack map is the union of A over the
//! own pieces minus the own pieces.
use super::*;
use crate::verif_spec::*;
use crate::{Color, Piece, PieceIndex, Square};

// NOTE: a 32-byte static (an 8-byte `static mut u64` trips a Kani 0.68 deallocation artefact, see c05.rs)
static mut SEEDS: [u64; 4] = [0; 4];

/// the abstract attack function: two symbolic seeds mixed with piece index, square and occupancy (so that a wrong
/// piece, a wrong square or a wrong occupancy handed to the callee changes the result)
fn abstract_attacks(piece: u8, square: u8, occ: u64) -> u64 {
    let s = unsafe { SEEDS };
    s[0].rotate_left(square as u32) ^ s[1].rotate_left(piece as u32 * 3) ^ occ.rotate_left(7) ^ s[2]
}

fn stub_compute(piece: PieceIndex, square: Square, occupancy: BitBoard) -> BitBoard {
    BitBoard::new(abstract_attacks(piece.0, sq_u8(square), bb(occupancy)))
}

/// spec contribution of square s: A(kind on s, s, occ) if an own piece stands on s (pawns only when `pawns_only`)
fn contrib(p: &[u64; 16], c: Color, s: u8, occ: u64, pawns_only: bool) -> u64 {
    let base = color_u8(c) as usize * 8;
    let b = bit(s);
    let k: u8 = if p[base + 1] & b != 0 {
        1
    } else if p[base + 2] & b != 0 {
        2
    } else if p[base + 3] & b != 0 {
        3
    } else if p[base + 4] & b != 0 {
        4
    } else if p[base + 5] & b != 0 {
        5
    } else if p[base + 6] & b != 0 {
        6
    } else {
        0
    };
    if k == 0 || (pawns_only && k != 1) {
        0
    } else {
        abstract_attacks(base as u8 + k, s, occ)
    }
}

macro_rules! or8 {
    ($f:expr, $b:expr) => {
        $f($b) | $f($b + 1) | $f($b + 2) | $f($b + 3) | $f($b + 4) | $f($b + 5) | $f($b + 6) | $f($b + 7)
    };
}

/// union over all 64 squares, written without a loop (so that the global unwind bound only limits the piece counts)
fn spec_union(p: &[u64; 16], c: Color, occ: u64, pawns_only: bool) -> u64 {
    let f = |s: u8| contrib(p, c, s, occ, pawns_only);
    or8!(f, 0) | or8!(f, 8) | or8!(f, 16) | or8!(f, 24) | or8!(f, 32) | or8!(f, 40) | or8!(f, 48) | or8!(f, 56)
}

fn any_position(max_per_kind: u32) -> ([u64; 16], Color) {
    unsafe {
        SEEDS = kani::any();
    }
    let p: [u64; 16] = kani::any();
    kani::assume(boards_wf_unrolled(&p));
    let c = any_color();
    let base = color_u8(c) as usize * 8;
    kani::assume(
        p[base + 1].count_ones() <= max_per_kind
            && p[base + 2].count_ones() <= max_per_kind
            && p[base + 3].count_ones() <= max_per_kind
            && p[base + 4].count_ones() <= max_per_kind
            && p[base + 5].count_ones() <= max_per_kind
            && p[base + 6].count_ones() <= max_per_kind,
    );
    (p, c)
}

fn from_occupancy_obligation(max_per_kind: u32) {
    let (p, c) = any_position(max_per_kind);
    let occ = p[1] | p[2] | p[3] | p[4] | p[5] | p[6] | p[9] | p[10] | p[11] | p[12] | p[13] | p[14];
    let own = union_color_unrolled(&p, c);
    let board = board_from(&p);
    let m = AttackMap::from_occupancy(c, board.piece_map(), BitBoard::new(occ), BitBoard::new(own));
    assert!(bb(m.all) == spec_union(&p, c, occ, false) & !own);
    assert!(bb(m.pawn) == spec_union(&p, c, occ, true) & !own);
    kani::cover!(own.count_ones() >= 3, "several own pieces reachable");
    kani::cover!(c == Color::Black, "black reachable");
}

fn union_color_unrolled(p: &[u64; 16], c: Color) -> u64 {
    let b = color_u8(c) as usize * 8;
    p[b + 1] | p[b + 2] | p[b + 3] | p[b + 4] | p[b + 5] | p[b + 6]
}

#[kani::proof]
#[kani::unwind(8)]
#[kani::stub(crate::attacks::AttackGenerator::compute, stub_compute)]
fn c10_from_occupancy_contract_2() {
    from_occupancy_obligation(2)
}

#[kani::proof]
#[kani::unwind(12)]
#[kani::stub(crate::attacks::AttackGenerator::compute, stub_compute)]
fn c10_from_occupancy_contract_10() {
    from_occupancy_obligation(10)
}

/// Board level: colored_attacks / colored_pawn_attacks are from_occupancy of the board's own (immutable) fields,
/// is_check(c) <=> king(c) stands on a square attacked by the opponent, and the lazily cached answers do not depend on
/// the order of the queries or on cloning before/after a query.
#[kani::proof]
#[kani::unwind(8)]
#[kani::stub(crate::attacks::AttackGenerator::compute, stub_compute)]
fn c10_board_queries_contract() {
    let (p, _) = any_position(1);
    // both colours bounded for this obligation
    kani::assume(
        p[1].count_ones() <= 1 && p[2].count_ones() <= 1 && p[3].count_ones() <= 1 && p[4].count_ones() <= 1
            && p[5].count_ones() <= 1 && p[6].count_ones() <= 1 && p[9].count_ones() <= 1 && p[10].count_ones() <= 1
            && p[11].count_ones() <= 1 && p[12].count_ones() <= 1 && p[13].count_ones() <= 1 && p[14].count_ones() <= 1,
    );
    let occ = p[1] | p[2] | p[3] | p[4] | p[5] | p[6] | p[9] | p[10] | p[11] | p[12] | p[13] | p[14];
    let board = board_from(&p);
    assert!(bb(board.occupancy()) == occ);
    let spec_w = spec_union(&p, Color::White, occ, false) & !union_color_unrolled(&p, Color::White);
    let spec_b = spec_union(&p, Color::Black, occ, false) & !union_color_unrolled(&p, Color::Black);
    let spec_wp = spec_union(&p, Color::White, occ, true) & !union_color_unrolled(&p, Color::White);

    // clone BEFORE any query, then query in one order on the original and in the other order on the clone
    let early_clone = board.clone();
    let w1 = bb(board.colored_attacks(Color::White));
    let b1 = bb(board.colored_attacks(Color::Black));
    let b2 = bb(early_clone.colored_attacks(Color::Black));
    let w2 = bb(early_clone.colored_attacks(Color::White));
    assert!(w1 == spec_w && b1 == spec_b && w2 == spec_w && b2 == spec_b);
    // asking again (now served from the cache) and asking a clone taken AFTER the queries
    let late_clone = board.clone();
    assert!(bb(board.colored_attacks(Color::White)) == spec_w);
    assert!(bb(late_clone.colored_attacks(Color::White)) == spec_w && bb(late_clone.colored_attacks(Color::Black)) == spec_b);
    assert!(bb(board.colored_pawn_attacks(Color::White)) == spec_wp);
    // check detection
    assert!(board.is_check(Color::White) == (p[6] & spec_b != 0));
    assert!(late_clone.is_check(Color::Black) == (p[14] & spec_w != 0));
    kani::cover!(board.is_check(Color::White), "check reachable");
    kani::cover!(!board.is_check(Color::White) && p[6] != 0, "no check reachable");
}

/// State::is_check is Board::is_check of the side to move
#[kani::proof]
#[kani::unwind(8)]
#[kani::stub(crate::attacks::AttackGenerator::compute, stub_compute)]
fn c10_state_is_check_contract() {
    let (p, turn) = any_position(1);
    kani::assume(
        p[1].count_ones() <= 1 && p[2].count_ones() <= 1 && p[3].count_ones() <= 1 && p[4].count_ones() <= 1
            && p[5].count_ones() <= 1 && p[6].count_ones() <= 1 && p[9].count_ones() <= 1 && p[10].count_ones() <= 1
            && p[11].count_ones() <= 1 && p[12].count_ones() <= 1 && p[13].count_ones() <= 1 && p[14].count_ones() <= 1,
    );
    let occ = p[1] | p[2] | p[3] | p[4] | p[5] | p[6] | p[9] | p[10] | p[11] | p[12] | p[13] | p[14];
    let state = crate::State::new(
        board_from(&p),
        turn,
        any_rights(),
        any_opt_square(),
        crate::Clock { halfmove_clock: kani::any(), fullmove_number: kani::any() },
    );
    let them = !turn;
    let attacked = spec_union(&p, them, occ, false) & !union_color_unrolled(&p, them);
    let king = p[pidx(turn, Piece::King)];
    assert!(state.is_check() == (king & attacked != 0));
    kani::cover!(state.is_check(), "check reachable");
}

// ---- loop-free, complete: check detection on top of the attacked-set contract -----------------------------------------

static mut ATTACKED: [u64; 4] = [0; 4]; // attacked set of White, of Black

fn stub_colored_attacks(_b: &Board, c: Color) -> BitBoard {
    BitBoard::new(unsafe { ATTACKED[color_u8(c) as usize] })
}

/// Board::is_check(c) <=> a king of colour c stands on a square in colored_attacks(!c); State::is_check is that for the
/// side to move.  The attacked sets are arbitrary (contract of colored_attacks), the position is fully symbolic, and
/// there is no loop: this obligation is complete.
#[kani::proof]
#[kani::stub(crate::board::Board::colored_attacks, stub_colored_attacks)]
fn c10_is_check_contract() {
    unsafe {
        ATTACKED = kani::any();
    }
    let p: [u64; 16] = kani::any();
    kani::assume(boards_wf_unrolled(&p));
    let board = board_from(&p);
    let c = any_color();
    let attacked_by_opponent = unsafe { ATTACKED[color_u8(!c) as usize] };
    assert!(board.is_check(c) == (p[pidx(c, Piece::King)] & attacked_by_opponent != 0));
    let state = crate::State::new(
        board_from(&p),
        c,
        any_rights(),
        any_opt_square(),
        crate::Clock { halfmove_clock: kani::any(), fullmove_number: kani::any() },
    );
    assert!(state.is_check() == board.is_check(c));
    kani::cover!(board.is_check(c), "check reachable");
    kani::cover!(!board.is_check(c) && p[pidx(c, Piece::King)] != 0, "no check reachable");
}
