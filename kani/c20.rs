//! C20 -- Move values faithfully carry their attributes.
//! Child module of `weechess_core::moves` (sees `compact` and the private field of `Move`).
use super::compact::{self, BitSetExt};
use super::*;
use crate::verif_spec::*;

/// the type invariant of `Move`: every accessor is total on it
pub fn valid_raw(raw: u32) -> bool {
    let piece = raw & 0xf;
    let cap = (raw >> 16) & 0xf;
    let promo = (raw >> 20) & 0xf;
    let both_castle_bits = (raw >> 26) & 3 == 3;
    piece >= 1 && piece <= 6 && cap <= 6 && promo <= 6 && (raw >> 29) == 0 && !both_castle_bits
}

impl kani::Arbitrary for Move {
    fn any() -> Self {
        let raw: u32 = kani::any();
        kani::assume(valid_raw(raw));
        Move(raw)
    }
}

/// the abstract view of a move: the full attribute tuple
#[derive(Clone, Copy, PartialEq, Eq)]
pub struct Attrs {
    pub color: Color,
    pub piece: Piece,
    pub origin: Square,
    pub dest: Square,
    pub capture: Option<Piece>,
    pub promotion: Option<Piece>,
    pub en_passant: bool,
    pub castle: Option<Side>,
    pub double_pawn: bool,
}

pub fn view(m: &Move) -> Attrs {
    Attrs {
        color: m.color(),
        piece: m.piece(),
        origin: m.origin(),
        dest: m.destination(),
        capture: m.capture(),
        promotion: m.promotion(),
        en_passant: m.is_en_passant(),
        castle: m.castle_side(),
        double_pawn: m.is_double_pawn(),
    }
}

fn spec_double(piece: Piece, origin: Square, dest: Square) -> bool {
    let d = rank_of(sq_u8(origin)) - rank_of(sq_u8(dest));
    piece == Piece::Pawn && (d > 1 || d < -1)
}

/// derived predicates must agree with the view
fn derived_ok(m: &Move, a: &Attrs) -> bool {
    m.is_capture() == a.capture.is_some()
        && m.is_promotion() == a.promotion.is_some()
        && m.is_any_castle() == a.castle.is_some()
        && m.is_castle(Side::King) == (a.castle == Some(Side::King))
        && m.is_castle(Side::Queen) == (a.castle == Some(Side::Queen))
        && m.resulting_piece() == a.promotion.unwrap_or(a.piece)
        && m.is_simple_non_capture()
            == (a.capture.is_none() && a.promotion.is_none() && !a.en_passant && a.castle.is_none() && !a.double_pawn)
        && valid_raw(m.as_raw())
}

// ---- compact::store / load / bit / set_bit under contract (attributes injected on the real fns) --

#[kani::proof_for_contract(compact::store)]
fn c20_store_contract() {
    let mut data: u32 = kani::any();
    let offset: u8 = kani::any();
    let mask: u32 = kani::any();
    let value: u8 = kani::any();
    compact::store(&mut data, offset, mask, value);
    kani::cover!(true, "reachable");
}

#[kani::proof_for_contract(compact::load)]
fn c20_load_contract() {
    let r = compact::load(kani::any(), kani::any(), kani::any());
    kani::cover!(r == 63, "reachable");
}

#[kani::proof_for_contract(compact::set_bit)]
fn c20_set_bit_contract() {
    let mut data: u32 = kani::any();
    compact::set_bit(&mut data, kani::any(), kani::any());
    kani::cover!(true, "reachable");
}

#[kani::proof_for_contract(compact::bit)]
fn c20_bit_contract() {
    let data: u32 = kani::any();
    let r = compact::bit(&data, kani::any());
    kani::cover!(r, "reachable");
}

/// store-then-load of each field is the identity on the field's domain and leaves all other fields alone
#[kani::proof]
fn c20_fields_independent() {
    let raw: u32 = kani::any();
    // field-wise setters on a zero field behave as assignment and touch nothing else
    let mut b: u32 = raw & !compact::ORIGIN_MASK;
    let o = any_square();
    b.set_origin(o);
    assert!(b.origin() == o);
    assert!(b & !compact::ORIGIN_MASK == raw & !compact::ORIGIN_MASK);

    let mut b: u32 = raw & !compact::DEST_MASK;
    let d = any_square();
    b.set_dest(d);
    assert!(b.dest() == d);
    assert!(b & !compact::DEST_MASK == raw & !compact::DEST_MASK);

    let mut b: u32 = raw & !compact::PIECE_MASK;
    let k = any_kind();
    b.set_piece(k);
    assert!(b.piece() == k);
    assert!(b & !compact::PIECE_MASK == raw & !compact::PIECE_MASK);

    let mut b: u32 = raw & !compact::CAPTURE_MASK;
    let c = any_opt_kind();
    b.set_capture(c);
    assert!(b.capture() == c);
    assert!(b & !compact::CAPTURE_MASK == raw & !compact::CAPTURE_MASK);

    let mut b: u32 = raw & !compact::PROMOTION_MASK;
    let p = any_opt_kind();
    b.set_promotion(p);
    assert!(b.promotion() == p);
    assert!(b & !compact::PROMOTION_MASK == raw & !compact::PROMOTION_MASK);

    let mut b: u32 = raw;
    let v: bool = kani::any();
    b.set_en_passant(v);
    assert!(b.en_passant() == v && (b ^ raw) & !(1 << compact::EN_PASSANT_OFFSET) == 0);
    let mut b: u32 = raw;
    b.set_double_pawn(v);
    assert!(b.double_pawn() == v && (b ^ raw) & !(1 << compact::DOUBLE_PAWN_OFFSET) == 0);
    let mut b: u32 = raw;
    b.set_castle_queenside(v);
    assert!(b.castle_queenside() == v && (b ^ raw) & !(1 << compact::CASTLE_QUEENSIDE_OFFSET) == 0);
    let mut b: u32 = raw;
    b.set_castle_kingside(v);
    assert!(b.castle_kingside() == v && (b ^ raw) & !(1 << compact::CASTLE_KINGSIDE_OFFSET) == 0);
    let mut b: u32 = raw;
    b.set_color(v);
    assert!(b.color() == v && (b ^ raw) & !(1 << compact::COLOR_OFFSET) == 0);
    kani::cover!(true, "reachable");
}

/// the ten fields are pairwise disjoint and fit in 29 bits (the layout the derived PartialEq relies on)
#[kani::proof]
fn c20_layout_disjoint() {
    let fields: [u32; 10] = [
        compact::PIECE_MASK,
        compact::ORIGIN_MASK,
        compact::DEST_MASK,
        compact::CAPTURE_MASK,
        compact::PROMOTION_MASK,
        1 << compact::EN_PASSANT_OFFSET,
        1 << compact::DOUBLE_PAWN_OFFSET,
        1 << compact::CASTLE_QUEENSIDE_OFFSET,
        1 << compact::CASTLE_KINGSIDE_OFFSET,
        1 << compact::COLOR_OFFSET,
    ];
    let i: usize = kani::any();
    let j: usize = kani::any();
    kani::assume(i < 10 && j < 10 && i != j);
    assert!(fields[i] & fields[j] == 0);
    assert!(fields[i] >> 29 == 0);
    assert!(compact::PIECE_MASK >> compact::PIECE_OFFSET >= 6);
    assert!(compact::ORIGIN_MASK >> compact::ORIGIN_OFFSET >= 63);
    assert!(compact::DEST_MASK >> compact::DEST_OFFSET >= 63);
    assert!(compact::CAPTURE_MASK >> compact::CAPTURE_OFFSET >= 6);
    assert!(compact::PROMOTION_MASK >> compact::PROMOTION_OFFSET >= 6);
    kani::cover!(true, "reachable");
}

// ---- the six constructors: precondition = type invariants of the arguments, postcondition = the FULL
// attribute tuple read back through the accessors equals the arguments and every attribute not given is
// absent.  (Kani's #[kani::ensures] instrumentation of these functions was measured at 750 s / out of memory
// per constructor against 9-17 s for the same pre/post stated in a harness, so the contract is stated as the
// predicate pair below and discharged by a loop-free harness over the whole argument domain.)

#[kani::proof]
fn c20_by_moving_contract() {
    let (p, o, d) = (any_piece_index(), any_square(), any_square());
    kani::assume(valid_pi(p) && valid_sq(o) && valid_sq(d));
    let m = Move::by_moving(p, o, d);
    assert!(ctor_post(&m, p, o, d, None, None, false, None));
    kani::cover!(m.is_double_pawn(), "double step reachable");
    kani::cover!(!m.is_double_pawn(), "plain reachable");
}

#[kani::proof]
fn c20_by_capturing_contract() {
    let (p, o, d, c) = (any_piece_index(), any_square(), any_square(), any_kind());
    kani::assume(valid_pi(p) && valid_sq(o) && valid_sq(d) && real_kind(c));
    let m = Move::by_capturing(p, o, d, c);
    assert!(ctor_post(&m, p, o, d, Some(c), None, false, None));
    kani::cover!(m.capture() == Some(Piece::Queen), "reachable");
}

#[kani::proof]
fn c20_by_promoting_contract() {
    let (p, o, d, pr) = (any_piece_index(), any_square(), any_square(), any_kind());
    kani::assume(valid_pi(p) && valid_sq(o) && valid_sq(d) && real_kind(pr));
    let m = Move::by_promoting(p, o, d, pr);
    assert!(ctor_post(&m, p, o, d, None, Some(pr), false, None));
    kani::cover!(m.promotion() == Some(Piece::Knight), "reachable");
}

#[kani::proof]
fn c20_by_capture_promoting_contract() {
    let (p, o, d, c, pr) = (any_piece_index(), any_square(), any_square(), any_kind(), any_kind());
    kani::assume(valid_pi(p) && valid_sq(o) && valid_sq(d) && real_kind(c) && real_kind(pr));
    let m = Move::by_capture_promoting(p, o, d, c, pr);
    assert!(ctor_post(&m, p, o, d, Some(c), Some(pr), false, None));
    kani::cover!(m.promotion() == Some(Piece::Knight) && m.capture() == Some(Piece::Rook), "reachable");
}

#[kani::proof]
fn c20_by_en_passant_contract() {
    let (p, o, d) = (any_piece_index(), any_square(), any_square());
    kani::assume(valid_pi(p) && valid_sq(o) && valid_sq(d));
    let m = Move::by_en_passant(p, o, d);
    assert!(ctor_post(&m, p, o, d, Some(Piece::Pawn), None, true, None));
    kani::cover!(true, "reachable");
}

#[kani::proof]
fn c20_by_castling_contract() {
    let side = if kani::any() { Side::King } else { Side::Queen };
    let color = any_color();
    let m = Move::by_castling(color, side);
    assert!(castle_post(&m, color, side));
    kani::cover!(m.is_castle(Side::Queen), "reachable");
}

pub fn ctor_post(
    m: &Move,
    piece: PieceIndex,
    origin: Square,
    dest: Square,
    capture: Option<Piece>,
    promotion: Option<Piece>,
    en_passant: bool,
    castle: Option<Side>,
) -> bool {
    let a = Attrs {
        color: piece.color(),
        piece: piece.piece(),
        origin,
        dest,
        capture,
        promotion,
        en_passant,
        castle,
        double_pawn: spec_double(piece.piece(), origin, dest),
    };
    view(m) == a && derived_ok(m, &a)
}

pub fn valid_pi(p: PieceIndex) -> bool {
    let k = p.0 & 7;
    (p.0 >> 3) <= 1 && k >= 1 && k <= 6
}

pub fn valid_sq(s: Square) -> bool {
    sq_u8(s) < 64
}

pub fn real_kind(p: Piece) -> bool {
    p != Piece::None
}

pub fn castle_post(m: &Move, color: Color, side: Side) -> bool {
    let rank: u8 = if color == Color::White { 0 } else { 56 };
    let dest = if side == Side::King { rank + 6 } else { rank + 2 };
    ctor_post(
        m,
        PieceIndex::new(color, Piece::King),
        sq(rank + 4),
        sq(dest),
        None,
        None,
        false,
        Some(side),
    )
}

// ---- equality is equality of attribute tuples (injectivity of the packing) -----------------------

#[kani::proof]
fn c20_eq_iff_attributes() {
    let m1: Move = kani::any();
    let m2: Move = kani::any();
    let same = view(&m1) == view(&m2);
    assert!((m1 == m2) == same);
    assert!((m1.as_raw() == m2.as_raw()) == same);
    kani::cover!(m1 == m2, "equal reachable");
    kani::cover!(m1 != m2, "unequal reachable");
}

/// equality on constructor-built moves, stated on the arguments
#[kani::proof]
fn c20_eq_iff_arguments() {
    let (p1, o1, d1, c1, pr1) = (any_piece_index(), any_square(), any_square(), any_kind(), any_kind());
    let (p2, o2, d2, c2, pr2) = (any_piece_index(), any_square(), any_square(), any_kind(), any_kind());
    let a = Move::by_capture_promoting(p1, o1, d1, c1, pr1);
    let b = Move::by_capture_promoting(p2, o2, d2, c2, pr2);
    let same = p1 == p2 && o1 == o2 && d1 == d2 && c1 == c2 && pr1 == pr2;
    assert!((a == b) == same);
    let q = Move::by_moving(p2, o2, d2);
    assert!(a != q);
    let e = Move::by_en_passant(p2, o2, d2);
    assert!(e != q && e != Move::by_capturing(p2, o2, d2, Piece::Pawn));
    kani::cover!(a == b, "equal reachable");
}

// ---- serialisation: Move is a serde newtype over u32 --------------------------------------------

mod ser {
    use serde::de::{self, Visitor};
    use serde::ser::Impossible;
    use serde::{Deserializer, Serializer};
    use std::fmt;

    #[derive(Debug)]
    pub struct E;
    impl fmt::Display for E {
        fn fmt(&self, _: &mut fmt::Formatter<'_>) -> fmt::Result {
            Ok(())
        }
    }
    impl std::error::Error for E {}
    impl serde::ser::Error for E {
        fn custom<T: fmt::Display>(_: T) -> Self {
            E
        }
    }
    impl de::Error for E {
        fn custom<T: fmt::Display>(_: T) -> Self {
            E
        }
    }

    /// records exactly one u32 wrapped in exactly one newtype struct; anything else is an error
    pub struct Rec<'a> {
        pub newtype_name: &'a mut Option<&'static str>,
    }
    macro_rules! no {
        ($($f:ident($t:ty)),*) => { $( fn $f(self, _: $t) -> Result<u32, E> { Err(E) } )* };
    }
    impl<'a> Serializer for Rec<'a> {
        type Ok = u32;
        type Error = E;
        type SerializeSeq = Impossible<u32, E>;
        type SerializeTuple = Impossible<u32, E>;
        type SerializeTupleStruct = Impossible<u32, E>;
        type SerializeTupleVariant = Impossible<u32, E>;
        type SerializeMap = Impossible<u32, E>;
        type SerializeStruct = Impossible<u32, E>;
        type SerializeStructVariant = Impossible<u32, E>;
        no!(serialize_bool(bool), serialize_i8(i8), serialize_i16(i16), serialize_i32(i32), serialize_i64(i64),
            serialize_u8(u8), serialize_u16(u16), serialize_u64(u64), serialize_f32(f32), serialize_f64(f64),
            serialize_char(char), serialize_str(&str), serialize_bytes(&[u8]));
        fn serialize_u32(self, v: u32) -> Result<u32, E> {
            Ok(v)
        }
        fn serialize_none(self) -> Result<u32, E> {
            Err(E)
        }
        fn serialize_some<T: ?Sized + serde::Serialize>(self, _: &T) -> Result<u32, E> {
            Err(E)
        }
        fn serialize_unit(self) -> Result<u32, E> {
            Err(E)
        }
        fn serialize_unit_struct(self, _: &'static str) -> Result<u32, E> {
            Err(E)
        }
        fn serialize_unit_variant(self, _: &'static str, _: u32, _: &'static str) -> Result<u32, E> {
            Err(E)
        }
        fn serialize_newtype_struct<T: ?Sized + serde::Serialize>(self, name: &'static str, v: &T) -> Result<u32, E> {
            if self.newtype_name.is_some() {
                return Err(E);
            }
            *self.newtype_name = Some(name);
            v.serialize(Rec { newtype_name: self.newtype_name })
        }
        fn serialize_newtype_variant<T: ?Sized + serde::Serialize>(
            self,
            _: &'static str,
            _: u32,
            _: &'static str,
            _: &T,
        ) -> Result<u32, E> {
            Err(E)
        }
        fn serialize_seq(self, _: Option<usize>) -> Result<Self::SerializeSeq, E> {
            Err(E)
        }
        fn serialize_tuple(self, _: usize) -> Result<Self::SerializeTuple, E> {
            Err(E)
        }
        fn serialize_tuple_struct(self, _: &'static str, _: usize) -> Result<Self::SerializeTupleStruct, E> {
            Err(E)
        }
        fn serialize_tuple_variant(
            self,
            _: &'static str,
            _: u32,
            _: &'static str,
            _: usize,
        ) -> Result<Self::SerializeTupleVariant, E> {
            Err(E)
        }
        fn serialize_map(self, _: Option<usize>) -> Result<Self::SerializeMap, E> {
            Err(E)
        }
        fn serialize_struct(self, _: &'static str, _: usize) -> Result<Self::SerializeStruct, E> {
            Err(E)
        }
        fn serialize_struct_variant(
            self,
            _: &'static str,
            _: u32,
            _: &'static str,
            _: usize,
        ) -> Result<Self::SerializeStructVariant, E> {
            Err(E)
        }
    }

    /// replays one u32 (what a self-describing format that round-trips u32 hands back)
    pub struct Rep(pub u32);
    impl<'de> Deserializer<'de> for Rep {
        type Error = E;
        fn deserialize_any<V: Visitor<'de>>(self, v: V) -> Result<V::Value, E> {
            v.visit_u32(self.0)
        }
        fn deserialize_newtype_struct<V: Visitor<'de>>(self, _: &'static str, v: V) -> Result<V::Value, E> {
            v.visit_newtype_struct(self)
        }
        serde::forward_to_deserialize_any! {
            bool i8 i16 i32 i64 i128 u8 u16 u32 u64 u128 f32 f64 char str string bytes byte_buf option unit
            unit_struct seq tuple tuple_struct map struct enum identifier ignored_any
        }
    }
}

#[kani::proof]
fn c20_serde_newtype_roundtrip() {
    use serde::{Deserialize, Serialize};
    let m: Move = kani::any();
    let mut name = None;
    let wire = m.serialize(ser::Rec { newtype_name: &mut name });
    assert!(wire.is_ok());
    let wire = wire.unwrap();
    assert!(wire == m.as_raw()); // the wire value is the raw word (with or without a newtype wrapper around it)
    let _ = name;
    let back = Move::deserialize(ser::Rep(wire));
    assert!(back.is_ok());
    let back = back.unwrap();
    assert!(back == m);
    assert!(view(&back) == view(&m));
    kani::cover!(true, "reachable");
}

/// (for harnesses in other modules) a move value from a raw word that satisfies the type invariant
pub fn move_from_raw(raw: u32) -> Move {
    Move(raw)
}

// ---- the packing, as a spec-level function (the inverse of `view`), and the constructors' contracts as functions -------
// Callers of the constructors are checked against these (kani::stub) instead of the constructor bodies; that they agree
// with the real constructors is exactly the C20 obligations above (ctor_post + eq_iff_attributes).

pub fn spec_pack(a: &Attrs) -> Move {
    let cap = a.capture.map_or(0, kind_u8) as u32;
    let pro = a.promotion.map_or(0, kind_u8) as u32;
    Move(
        kind_u8(a.piece) as u32
            | (sq_u8(a.origin) as u32) << 4
            | (sq_u8(a.dest) as u32) << 10
            | cap << 16
            | pro << 20
            | (a.en_passant as u32) << 24
            | (a.double_pawn as u32) << 25
            | ((a.castle == Some(Side::Queen)) as u32) << 26
            | ((a.castle == Some(Side::King)) as u32) << 27
            | ((a.color == Color::White) as u32) << 28,
    )
}

fn attrs_of(piece: PieceIndex, origin: Square, dest: Square, capture: Option<Piece>, promotion: Option<Piece>, ep: bool) -> Attrs {
    Attrs {
        color: piece.color(),
        piece: piece.piece(),
        origin,
        dest,
        capture,
        promotion,
        en_passant: ep,
        castle: None,
        double_pawn: spec_double(piece.piece(), origin, dest),
    }
}

pub fn contract_by_moving(piece: PieceIndex, origin: Square, dest: Square) -> Move {
    spec_pack(&attrs_of(piece, origin, dest, None, None, false))
}
pub fn contract_by_capturing(piece: PieceIndex, origin: Square, dest: Square, capturing: Piece) -> Move {
    spec_pack(&attrs_of(piece, origin, dest, Some(capturing), None, false))
}
pub fn contract_by_promoting(piece: PieceIndex, origin: Square, dest: Square, promotion: Piece) -> Move {
    spec_pack(&attrs_of(piece, origin, dest, None, Some(promotion), false))
}
pub fn contract_by_capture_promoting(piece: PieceIndex, origin: Square, dest: Square, capturing: Piece, promotion: Piece) -> Move {
    spec_pack(&attrs_of(piece, origin, dest, Some(capturing), Some(promotion), false))
}
pub fn contract_by_en_passant(piece: PieceIndex, origin: Square, dest: Square) -> Move {
    spec_pack(&attrs_of(piece, origin, dest, Some(Piece::Pawn), None, true))
}

/// the contract functions ARE the constructors (pointwise equal on the whole argument domain), and spec_pack inverts view
#[kani::proof]
fn c20_contract_functions_equal_constructors() {
    let (p, o, d, c, pr) = (any_piece_index(), any_square(), any_square(), any_kind(), any_kind());
    assert!(Move::by_moving(p, o, d) == contract_by_moving(p, o, d));
    assert!(Move::by_capturing(p, o, d, c) == contract_by_capturing(p, o, d, c));
    assert!(Move::by_promoting(p, o, d, pr) == contract_by_promoting(p, o, d, pr));
    assert!(Move::by_capture_promoting(p, o, d, c, pr) == contract_by_capture_promoting(p, o, d, c, pr));
    assert!(Move::by_en_passant(p, o, d) == contract_by_en_passant(p, o, d));
    let m: Move = kani::any();
    assert!(spec_pack(&view(&m)) == m);
    kani::cover!(true, "reachable");
}
