//! C09 -- attack lookup tables equal board geometry.  Child module of `weechess_core::attacks::data`.
use super::*;
use crate::verif_spec::*;
use crate::{AttackGenerator, BitBoard, Color, Offset, Square};

// ---- geometric spec (file/rank arithmetic only; no bitboards) -----------------------------------------------------

fn sgn(x: i8) -> i8 {
    if x > 0 {
        1
    } else if x < 0 {
        -1
    } else {
        0
    }
}
fn abs8(x: i8) -> i8 {
    if x < 0 {
        -x
    } else {
        x
    }
}

/// unit step of a direction, written independently of `impl Into<Offset> for Direction`
fn dir_step(d: Direction) -> (i8, i8) {
    match d {
        Direction::North => (0, 1),
        Direction::South => (0, -1),
        Direction::East => (1, 0),
        Direction::West => (-1, 0),
        Direction::NorthEast => (1, 1),
        Direction::NorthWest => (-1, 1),
        Direction::SouthEast => (1, -1),
        Direction::SouthWest => (-1, -1),
    }
}

fn any_direction() -> Direction {
    let d: u8 = kani::any();
    kani::assume(d < 8);
    Direction::try_from(d).unwrap()
}

/// t lies on the ray from s in direction (sf, sr), at distance >= 1
fn on_ray(s: u8, t: u8, sf: i8, sr: i8) -> bool {
    let df = file_of(t) - file_of(s);
    let dr = rank_of(t) - rank_of(s);
    let n = if abs8(df) > abs8(dr) { abs8(df) } else { abs8(dr) };
    n >= 1 && df == n * sf && dr == n * sr
}

/// a slider on s (rook: orthogonal lines, bishop: diagonals) reaches t: same line, and every square strictly between
/// is empty -- "walking the ray up to and including the first blocker"
fn spec_slider_hits(s: u8, t: u8, occ: u64, rook: bool) -> bool {
    let df = file_of(t) - file_of(s);
    let dr = rank_of(t) - rank_of(s);
    if df == 0 && dr == 0 {
        return false;
    }
    let line = if rook { df == 0 || dr == 0 } else { abs8(df) == abs8(dr) };
    if !line {
        return false;
    }
    let (sf, sr) = (sgn(df), sgn(dr));
    let n = if abs8(df) > abs8(dr) { abs8(df) } else { abs8(dr) };
    let mut k: i8 = 1;
    let mut clear = true;
    while k < 7 {
        if k < n && occ & bit(mk(file_of(s) + k * sf, rank_of(s) + k * sr)) != 0 {
            clear = false;
        }
        k += 1;
    }
    clear
}

// ---- (a) Square::offset and BitBoard::shift --------------------------------------------------------------------------

#[kani::proof]
fn c09_square_offset_contract() {
    let s = any_square();
    let off = Offset { file: kani::any(), rank: kani::any() };
    kani::assume(off.file >= -8 && off.file <= 8 && off.rank >= -8 && off.rank <= 8);
    let f = file_of(sq_u8(s)) + off.file;
    let r = rank_of(sq_u8(s)) + off.rank;
    match s.offset(off) {
        Some(t) => assert!(on_board(f, r) && sq_u8(t) == mk(f, r)),
        None => assert!(!on_board(f, r)),
    }
    kani::cover!(s.offset(off).is_none(), "off board reachable");
}

/// shift is the set image under offset: bit t of the result is set iff t - offset is on the board and set in the
/// argument (no wrap-around across the a/h files)
#[kani::proof]
#[kani::unwind(5)]
fn c09_bitboard_shift_contract() {
    let b: u64 = kani::any();
    let off = Offset { file: kani::any(), rank: kani::any() };
    kani::assume(off.file >= -2 && off.file <= 2 && off.rank >= -7 && off.rank <= 7);
    let shifted = bb(BitBoard::new(b).shift(off));
    let t: u8 = kani::any();
    kani::assume(t < 64);
    let f = file_of(t) - off.file;
    let r = rank_of(t) - off.rank;
    let expect = on_board(f, r) && b & bit(mk(if on_board(f, r) { f } else { 0 }, if on_board(f, r) { r } else { 0 })) != 0;
    assert!((shifted & bit(t) != 0) == expect);
    kani::cover!(expect && off.file == -2 && off.rank == 2, "reachable");
}

// ---- (b) leaper tables ----------------------------------------------------------------------------------------------------

#[kani::proof]
#[kani::unwind(66)]
fn c09_knight_table_contract() {
    let s = any_square();
    let t = any_square();
    let (df, dr) = (abs8(file_of(sq_u8(t)) - file_of(sq_u8(s))), abs8(rank_of(sq_u8(t)) - rank_of(sq_u8(s))));
    let expect = (df == 1 && dr == 2) || (df == 2 && dr == 1);
    assert!(AttackGenerator::compute_knight_attacks(s).test(t) == expect);
    kani::cover!(expect, "reachable");
}

#[kani::proof]
#[kani::unwind(66)]
fn c09_king_table_contract() {
    let s = any_square();
    let t = any_square();
    let (df, dr) = (abs8(file_of(sq_u8(t)) - file_of(sq_u8(s))), abs8(rank_of(sq_u8(t)) - rank_of(sq_u8(s))));
    let expect = (df <= 1 && dr <= 1) && (df + dr >= 1);
    assert!(AttackGenerator::compute_king_attacks(s).test(t) == expect);
    kani::cover!(expect, "reachable");
}

#[kani::proof]
#[kani::unwind(66)]
fn c09_pawn_table_contract() {
    let s = any_square();
    let t = any_square();
    let c = any_color();
    let df = abs8(file_of(sq_u8(t)) - file_of(sq_u8(s)));
    let dr = rank_of(sq_u8(t)) - rank_of(sq_u8(s));
    let expect = df == 1 && dr == fwd(c);
    assert!(AttackGenerator::compute_pawn_attacks(s, c).test(t) == expect);
    kani::cover!(expect && c == Color::Black, "reachable");
}

// ---- (c) rays -------------------------------------------------------------------------------------------------------------

#[kani::proof]
#[kani::unwind(9)]
fn c09_compute_ray_contract() {
    let s = any_square();
    let d = any_direction();
    let t = any_square();
    let (sf, sr) = dir_step(d);
    let ray = compute_ray(s, d);
    assert!(ray.test(t) == on_ray(sq_u8(s), sq_u8(t), sf, sr));
    kani::cover!(ray.test(t), "reachable");
}

/// the lazy RAYS table holds compute_ray for every (direction, square)
#[kani::proof]
#[kani::unwind(66)]
fn c09_rays_table_contract() {
    let s = any_square();
    let d = any_direction();
    let t = any_square();
    let (sf, sr) = dir_step(d);
    assert!(RAYS[d][s].test(t) == on_ray(sq_u8(s), sq_u8(t), sf, sr));
    kani::cover!(RAYS[d][s].test(t), "reachable");
}

// ---- (d) the unoptimised slider attack generators == ray walking up to and including the first blocker ----------------

#[kani::proof]
#[kani::unwind(66)]
fn c09_rook_unoptimized_contract() {
    let s = any_square();
    let t = any_square();
    let occ: u64 = kani::any();
    let got = compute_rook_attacks_unoptimized(s, BitBoard::new(occ)).test(t);
    assert!(got == spec_slider_hits(sq_u8(s), sq_u8(t), occ, true));
    kani::cover!(got, "hit reachable");
    kani::cover!(!got && file_of(sq_u8(s)) == file_of(sq_u8(t)) && s != t, "blocked reachable");
}

#[kani::proof]
#[kani::unwind(66)]
fn c09_bishop_unoptimized_contract() {
    let s = any_square();
    let t = any_square();
    let occ: u64 = kani::any();
    let got = compute_bishop_attacks_unoptimized(s, BitBoard::new(occ)).test(t);
    assert!(got == spec_slider_hits(sq_u8(s), sq_u8(t), occ, false));
    kani::cover!(got, "hit reachable");
}

// ---- (e) slide masks: the line squares except the last one in each direction -----------------------------------------

fn spec_in_mask(s: u8, t: u8, rook: bool) -> bool {
    let df = file_of(t) - file_of(s);
    let dr = rank_of(t) - rank_of(s);
    if df == 0 && dr == 0 {
        return false;
    }
    let line = if rook { df == 0 || dr == 0 } else { abs8(df) == abs8(dr) };
    // not the last square of its ray: one more step in the same direction stays on the board
    line && on_board(file_of(t) + sgn(df), rank_of(t) + sgn(dr))
}

/// every square is enumerated by a concrete loop (a symbolic index into the lazily built mask tables is what makes
/// CBMC run out of memory); the target square stays symbolic
#[kani::proof]
#[kani::unwind(66)]
fn c09_slide_masks_contract() {
    let t = any_square();
    let mut i: u8 = 0;
    while i < 64 {
        let s = sq(i);
        assert!(ROOK_SLIDE_MASKS[s].test(t) == spec_in_mask(i, sq_u8(t), true));
        assert!(BISHOP_SLIDE_MASKS[s].test(t) == spec_in_mask(i, sq_u8(t), false));
        i += 1;
    }
    kani::cover!(ROOK_SLIDE_MASKS[sq(27)].test(t), "reachable");
}

/// the two mask BUILDERS called directly (the lazily built statics only cache their result): symbolic square and target
#[kani::proof]
#[kani::unwind(66)]
fn c09_rook_slide_masks_builder_contract() {
    let s = any_square();
    let t = any_square();
    let masks = compute_rook_slide_masks();
    assert!(masks[s].test(t) == spec_in_mask(sq_u8(s), sq_u8(t), true));
    kani::cover!(masks[s].test(t), "reachable");
}

#[kani::proof]
#[kani::unwind(66)]
fn c09_bishop_slide_masks_builder_contract() {
    let s = any_square();
    let t = any_square();
    let masks = compute_bishop_slide_masks();
    assert!(masks[s].test(t) == spec_in_mask(sq_u8(s), sq_u8(t), false));
    kani::cover!(masks[s].test(t), "reachable");
}

/// spec-level lemma (no repository code): blockers outside the slide mask never change the attack set, so looking up
/// by `occupancy & mask` loses nothing.  With the two contracts above this gives
/// unopt(s, occ) == unopt(s, occ & mask(s)) for the real functions.
#[kani::proof]
#[kani::unwind(66)]
fn c09_lemma_off_mask_blockers_irrelevant() {
    let s = sq_u8(any_square());
    let t = sq_u8(any_square());
    let occ: u64 = kani::any();
    let rook: bool = kani::any();
    let mut mask = 0u64;
    let mut u: u8 = 0;
    while u < 64 {
        if spec_in_mask(s, u, rook) {
            mask |= bit(u);
        }
        u += 1;
    }
    assert!(spec_slider_hits(s, t, occ, rook) == spec_slider_hits(s, t, occ & mask, rook));
    kani::cover!(occ & !mask != 0 && spec_slider_hits(s, t, occ, rook), "reachable");
}

// ---- (f) subset enumeration: compute_blockers_from_index is "deposit the low bits of index into the mask" ----------

#[kani::proof]
#[kani::unwind(14)]
fn c09_blockers_from_index_contract() {
    let mask: u64 = kani::any();
    kani::assume(mask.count_ones() <= 12);
    let index: u64 = kani::any();
    let r = bb(compute_blockers_from_index(index, BitBoard::new(mask)));
    assert!(r & !mask == 0);
    // the k-th set bit of the mask (from the least significant) is taken iff bit k of index is set
    let t: u8 = kani::any();
    kani::assume(t < 64 && mask & bit(t) != 0);
    let k = (mask & (bit(t) - 1)).count_ones();
    assert!((r & bit(t) != 0) == (index & (1u64 << k) != 0));
    kani::cover!(mask.count_ones() == 12 && r == mask, "full subset reachable");
}

// ---- (g) the real magic constants hash perfectly ----------------------------------------------------------------------
// For every square: two blocker subsets of the slide mask that collide in the table index have the same attack set, the
// index fits the 4096-entry table, and the table loop enumerates every subset (index width >= popcount(mask)).

fn magic_ok(s: Square, rook: bool) {
    let (mask, magic, width) = if rook {
        (bb(ROOK_SLIDE_MASKS[s]), bb(ROOK_MAGICS[s]), ROOK_MAGIC_INDEXES[s] as u64)
    } else {
        (bb(BISHOP_SLIDE_MASKS[s]), bb(BISHOP_MAGICS[s]), BISHOP_MAGIC_INDEXES[s] as u64)
    };
    assert!(width >= mask.count_ones() as u64 && width <= 12 && width >= 1);
    let b1: u64 = kani::any();
    let b2: u64 = kani::any();
    kani::assume(b1 & !mask == 0 && b2 & !mask == 0);
    let i1 = u64::wrapping_mul(b1, magic) >> (64 - width);
    let i2 = u64::wrapping_mul(b2, magic) >> (64 - width);
    assert!(i1 < 4096 && i1 < (1u64 << width));
    if i1 == i2 {
        if rook {
            assert!(
                compute_rook_attacks_unoptimized(s, BitBoard::new(b1)) == compute_rook_attacks_unoptimized(s, BitBoard::new(b2))
            );
        } else {
            assert!(
                compute_bishop_attacks_unoptimized(s, BitBoard::new(b1))
                    == compute_bishop_attacks_unoptimized(s, BitBoard::new(b2))
            );
        }
    }
}

fn magic_block(from: u8, to: u8, rook: bool) {
    let mut i = from;
    while i < to {
        magic_ok(sq(i), rook);
        i += 1;
    }
    kani::cover!(true, "reachable");
}

macro_rules! magic_harness {
    ($name:ident, $from:expr, $to:expr, $rook:expr) => {
        #[kani::proof]
        #[kani::unwind(66)]
        fn $name() {
            magic_block($from, $to, $rook)
        }
    };
}
magic_harness!(c09_rook_magics_00_15, 0, 16, true);
magic_harness!(c09_rook_magics_16_31, 16, 32, true);
magic_harness!(c09_rook_magics_32_47, 32, 48, true);
magic_harness!(c09_rook_magics_48_63, 48, 64, true);
magic_harness!(c09_bishop_magics_00_15, 0, 16, false);
magic_harness!(c09_bishop_magics_16_31, 16, 32, false);
magic_harness!(c09_bishop_magics_32_47, 32, 48, false);
magic_harness!(c09_bishop_magics_48_63, 48, 64, false);

// ---- bounded stand-in (native, exhaustive): the filled tables and the look-ups ----------------------------------------
// The two fill loops (262 144 iterations over Vec) and the look-ups through them cannot be symbolically executed
// here.  This runs the REAL builders and look-ups natively over every square and every subset of its slide mask, each
// also with off-mask noise, against the geometric spec above.

#[cfg(test)]
mod native {
    use super::*;

    fn spec_set(s: u8, occ: u64, rook: bool) -> u64 {
        let mut r = 0u64;
        for t in 0..64u8 {
            if spec_slider_hits(s, t, occ, rook) {
                r |= 1u64 << t;
            }
        }
        r
    }

    #[test]
    fn c09_native_magic_tables_exhaustive() {
        let mut count: u64 = 0;
        for s in 0..64u8 {
            let square = sq(s);
            for rook in [true, false] {
                let mask = if rook { bb(ROOK_SLIDE_MASKS[square]) } else { bb(BISHOP_SLIDE_MASKS[square]) };
                let n = mask.count_ones();
                for i in 0..(1u64 << n) {
                    let subset = bb(compute_blockers_from_index(i, BitBoard::new(mask)));
                    let expect = spec_set(s, subset, rook);
                    // the subset alone, with every off-mask square set, and with a pseudo-random off-mask pattern
                    for noise in [0u64, !mask, (i.wrapping_mul(0x9E37_79B9_7F4A_7C15) ^ (s as u64) << 17) & !mask] {
                        let occ = BitBoard::new(subset | noise);
                        let want = spec_set(s, subset | noise, rook);
                        assert_eq!(want, expect, "spec must ignore off-mask blockers except as first blockers");
                        let got = if rook {
                            bb(AttackGenerator::compute_rook_attacks(square, occ))
                        } else {
                            bb(AttackGenerator::compute_bishop_attacks(square, occ))
                        };
                        assert_eq!(got, want, "square {} rook {} occ {:#x}", s, rook, subset | noise);
                        if rook {
                            let q = bb(AttackGenerator::compute_queen_attacks(square, occ));
                            assert_eq!(q, want | spec_set(s, subset | noise, false));
                        }
                        count += 1;
                    }
                }
            }
        }
        // the slide masks (lazily built tables) for every pair of squares
        for s in 0..64u8 {
            for t in 0..64u8 {
                assert_eq!(ROOK_SLIDE_MASKS[sq(s)].test(sq(t)), spec_in_mask(s, t, true), "rook mask {} {}", s, t);
                assert_eq!(BISHOP_SLIDE_MASKS[sq(s)].test(sq(t)), spec_in_mask(s, t, false), "bishop mask {} {}", s, t);
                count += 1;
            }
        }
        println!("NATIVE-COUNT {}", count);
    }
}
