//! C11 -- FEN text and positions round-trip.  Child module of `weechess_core::notation::fen`.
//! `Regex::captures` cannot be executed symbolically: the regex gate is assumed to hand the six groups to the field
//! parsers; the writer and the field parsers are under contract here.
use super::*;
use crate::verif_spec::*;

struct Buf {
    b: [u8; 96],
    n: usize,
}
impl std::fmt::Write for Buf {
    fn write_str(&mut self, s: &str) -> std::fmt::Result {
        for c in s.bytes() {
            if self.n >= 96 {
                return Err(std::fmt::Error);
            }
            self.b[self.n] = c;
            self.n += 1;
        }
        Ok(())
    }
}

fn put(out: &mut [u8; 96], n: &mut usize, s: &[u8]) {
    for c in s {
        out[*n] = *c;
        *n += 1;
    }
}

/// spec of the canonical castling field: letters in KQkq order, or '-'
fn spec_castle_field(bits: u8, out: &mut [u8; 96], n: &mut usize) {
    if bits & 15 == 0 {
        put(out, n, b"-");
        return;
    }
    if bits & 1 != 0 {
        put(out, n, b"K");
    }
    if bits & 2 != 0 {
        put(out, n, b"Q");
    }
    if bits & 4 != 0 {
        put(out, n, b"k");
    }
    if bits & 8 != 0 {
        put(out, n, b"q");
    }
}

/// Non-placement fields: for every side, every one of the 16 castling sets, every en-passant target (or none) and
/// single-digit clocks, the writer produces exactly the canonical text, and the field parsers read the written fields
/// back to the same values.  Placement fixed to the two kings (the placement has its own obligations).
#[kani::proof]
#[kani::unwind(66)]
fn c11_castling_field_write_and_read_back() {
    let bits: u8 = kani::any();
    kani::assume(bits < 16);
    fields_obligation(any_color(), bits, None)
}

#[kani::proof]
#[kani::unwind(66)]
fn c11_en_passant_field_write_and_read_back() {
    let bits: u8 = kani::any();
    kani::assume(bits == 0 || bits == 15);
    fields_obligation(any_color(), bits, any_opt_square())
}

fn fields_obligation(turn: Color, bits: u8, ep: Option<Square>) {
    use std::fmt::Write;
    let mut p = [0u64; 16];
    p[6] = bit(4);
    p[14] = bit(60);
    let rights = ArrayMap::new([
        CastleRights { kingside: bits & 1 != 0, queenside: bits & 2 != 0 },
        CastleRights { kingside: bits & 4 != 0, queenside: bits & 8 != 0 },
    ]);
    // counters: formatting/parsing of usize is std's (assumed); fixed here
    let half: usize = 0;
    let full: usize = 1;
    let state = State::new(board_from(&p), turn, rights.clone(), ep, Clock { halfmove_clock: half, fullmove_number: full });
    let mut out = Buf { b: [0; 96], n: 0 };
    let r = write!(out, "{}", into_notation::<_, Fen>(&state));
    assert!(r.is_ok());
    // expected text
    let mut e = [0u8; 96];
    let mut n = 0usize;
    put(&mut e, &mut n, b"4k3/8/8/8/8/8/8/4K3 ");
    put(&mut e, &mut n, if turn == Color::White { b"w" } else { b"b" });
    put(&mut e, &mut n, b" ");
    let castle_at = n;
    spec_castle_field(bits, &mut e, &mut n);
    let castle_end = n;
    put(&mut e, &mut n, b" ");
    let ep_at = n;
    match ep {
        None => put(&mut e, &mut n, b"-"),
        Some(s) => {
            let i = sq_u8(s);
            put(&mut e, &mut n, &[b'a' + i % 8, b'1' + i / 8]);
        }
    }
    let ep_end = n;
    put(&mut e, &mut n, &[b' ', b'0' + half as u8, b' ', b'0' + full as u8]);
    assert!(out.n == n);
    let k: usize = kani::any();
    kani::assume(k < 96);
    assert!(k >= n || out.b[k] == e[k]);
    // read the written fields back with the field parsers (the way the reader dispatches on "-")
    let castle_txt = std::str::from_utf8(&out.b[castle_at..castle_end]).unwrap();
    let back = if castle_txt == "-" { ArrayMap::filled(CastleRights::NONE) } else { ArrayMap::try_parse(castle_txt).unwrap() };
    assert!(back[Color::White] == rights[Color::White] && back[Color::Black] == rights[Color::Black]);
    let ep_txt = std::str::from_utf8(&out.b[ep_at..ep_end]).unwrap();
    let ep_back = if ep_txt == "-" { None } else { Some(Square::try_from(ep_txt).unwrap()) };
    assert!(ep_back == ep);
    kani::cover!(bits == 15, "all rights reachable");
    kani::cover!(bits == 0 && ep.is_none(), "dashes reachable");
}

// ---- placement, one fully symbolic rank at a time ---------------------------------------------------------------------

const LETTERS: &[u8; 16] = b"?PNBRQK??pnbrqk?";

/// spec of one rank of the placement field: pieces as letters, runs of empty squares merged into one digit
fn spec_rank_text(codes: &[u8; 8], out: &mut [u8; 96], n: &mut usize) {
    let mut run = 0u8;
    let mut f = 0;
    while f < 8 {
        if codes[f] == 0 {
            run += 1;
        } else {
            if run > 0 {
                out[*n] = b'0' + run;
                *n += 1;
                run = 0;
            }
            out[*n] = LETTERS[codes[f] as usize];
            *n += 1;
        }
        f += 1;
    }
    if run > 0 {
        out[*n] = b'0' + run;
        *n += 1;
    }
}

fn any_rank_codes() -> [u8; 8] {
    let c: [u8; 8] = kani::any();
    let mut f = 0;
    while f < 8 {
        kani::assume(c[f] == 0 || (c[f] >= 1 && c[f] <= 6) || (c[f] >= 9 && c[f] <= 14));
        f += 1;
    }
    c
}

/// the placement parser reads the canonical text of a position whose rank `rank` is arbitrary (other ranks empty)
/// back to exactly that position
fn placement_parse_rank(rank: u8) {
    let codes = any_rank_codes();
    let mut text = [0u8; 96];
    let mut n = 0usize;
    let mut r: i8 = 7;
    while r >= 0 {
        if r as u8 == rank {
            spec_rank_text(&codes, &mut text, &mut n);
        } else {
            put(&mut text, &mut n, b"8");
        }
        if r != 0 {
            put(&mut text, &mut n, b"/");
        }
        r -= 1;
    }
    // SAFETY (harness only): ASCII by construction
    let s = unsafe { std::str::from_utf8_unchecked(&text[..n]) };
    let parsed = Board::try_parse(s);
    assert!(parsed.is_ok());
    let board = parsed.unwrap();
    let q = boards_of(&board);
    let t: u8 = kani::any();
    kani::assume(t < 64);
    let expect = if t / 8 == rank { codes[(t % 8) as usize] } else { 0 };
    assert!(code_at(&q, t) == expect);
    kani::cover!(codes[0] != 0 && codes[7] != 0, "pieces on both edges reachable");
}

#[kani::proof]
#[kani::unwind(66)]
fn c11_placement_parse_rank_1() {
    placement_parse_rank(0)
}

#[kani::proof]
#[kani::unwind(66)]
fn c11_placement_parse_rank_8() {
    placement_parse_rank(7)
}

#[kani::proof]
#[kani::unwind(66)]
fn c11_placement_parse_rank_4() {
    placement_parse_rank(3)
}

// ---- cheap field-level round trips (quick tier) -------------------------------------------------------------------------

/// the castling-field parser inverts the canonical spelling for all 16 sets
#[kani::proof]
#[kani::unwind(8)]
fn c11_castling_field_parse_inverse() {
    let bits: u8 = kani::any();
    kani::assume(bits < 16);
    let mut e = [0u8; 96];
    let mut n = 0usize;
    spec_castle_field(bits, &mut e, &mut n);
    let txt = std::str::from_utf8(&e[..n]).unwrap();
    let back = ArrayMap::<Color, CastleRights>::try_parse(txt);
    assert!(back.is_ok());
    let back = back.unwrap();
    assert!(back[Color::White].kingside == (bits & 1 != 0) && back[Color::White].queenside == (bits & 2 != 0));
    assert!(back[Color::Black].kingside == (bits & 4 != 0) && back[Color::Black].queenside == (bits & 8 != 0));
    kani::cover!(bits == 15, "KQkq reachable");
    kani::cover!(bits == 0, "dash reachable");
}

/// a square is written as file letter + rank digit and read back to the same square (the en-passant field)
#[kani::proof]
#[kani::unwind(6)]
fn c11_square_text_roundtrip() {
    use std::fmt::Write;
    let s = any_square();
    let mut out = Buf { b: [0; 96], n: 0 };
    assert!(write!(out, "{}", s).is_ok());
    let i = sq_u8(s);
    assert!(out.n == 2 && out.b[0] == b'a' + i % 8 && out.b[1] == b'1' + i / 8);
    let txt = std::str::from_utf8(&out.b[..2]).unwrap();
    assert!(Square::try_from(txt) == Ok(s));
    kani::cover!(i == 63, "h8 reachable");
}

// ---- the FEN reader after its regex gate (extracted verbatim) --------------------------------------------------------------

/// stands in for regex::Captures: indexable by group number, yielding the captured text
pub struct Groups<'a>(pub [&'a str; 9]);
impl<'a> std::ops::Index<usize> for Groups<'a> {
    type Output = str;
    fn index(&self, i: usize) -> &str {
        self.0[i]
    }
}

include!("fen_reader_extracted.rs");

/// Reader contract, part A: one field symbolic at a time (the reader handles the fields one after the other and they
/// share no state), all field lengths concrete.  `which`: 0 castling set (each of the four letters present or replaced
/// by '-'), 1 en-passant square, 2 the two clocks as three-digit numbers 000..999.  Jointly symbolic fields exhausted
/// 12 GB in CBMC.
fn reader_field_obligation(which: u8) {
    let turn = any_color();
    let bits: u8 = if which == 0 { kani::any() } else { 10 };
    kani::assume(bits < 16);
    let ep = if which == 1 { any_square() } else { sq(20) };
    let hd: [u8; 3] = if which == 2 { kani::any() } else { [1, 0, 1] };
    let fd: [u8; 3] = if which == 2 { kani::any() } else { [0, 4, 2] };
    kani::assume(hd[0] < 10 && hd[1] < 10 && hd[2] < 10 && fd[0] < 10 && fd[1] < 10 && fd[2] < 10);
    let cb = [
        if bits & 1 != 0 { b'K' } else { b'-' },
        if bits & 2 != 0 { b'Q' } else { b'-' },
        if bits & 4 != 0 { b'k' } else { b'-' },
        if bits & 8 != 0 { b'q' } else { b'-' },
    ];
    let eb = [b'a' + sq_u8(ep) % 8, b'1' + sq_u8(ep) / 8];
    let hb = [b'0' + hd[0], b'0' + hd[1], b'0' + hd[2]];
    let fb = [b'0' + fd[0], b'0' + fd[1], b'0' + fd[2]];
    // SAFETY (harness only): ASCII by construction
    let groups = Groups([
        "",
        "4k3/8/8/8/8/8/8/4K3",
        "",
        if turn == Color::White { "w" } else { "b" },
        unsafe { std::str::from_utf8_unchecked(&cb) },
        "",
        unsafe { std::str::from_utf8_unchecked(&eb) },
        unsafe { std::str::from_utf8_unchecked(&hb) },
        unsafe { std::str::from_utf8_unchecked(&fb) },
    ]);
    let r = fen_reader_after_regex(&groups);
    assert!(r.is_ok());
    let st = r.unwrap();
    assert!(st.turn_to_move() == turn && st.en_passant_target() == Some(ep));
    assert!(st.castle_rights(Color::White).kingside == (bits & 1 != 0) && st.castle_rights(Color::White).queenside == (bits & 2 != 0));
    assert!(st.castle_rights(Color::Black).kingside == (bits & 4 != 0) && st.castle_rights(Color::Black).queenside == (bits & 8 != 0));
    assert!(st.clock().halfmove_clock == 100 * hd[0] as usize + 10 * hd[1] as usize + hd[2] as usize);
    assert!(st.clock().fullmove_number == 100 * fd[0] as usize + 10 * fd[1] as usize + fd[2] as usize);
    assert!(bb(st.board().piece_occupancy(PieceIndex::new(Color::White, Piece::King))) == bit(4));
    assert!(bb(st.board().piece_occupancy(PieceIndex::new(Color::Black, Piece::King))) == bit(60));
    assert!(bb(st.board().occupancy()) == bit(4) | bit(60));
    kani::cover!(turn == Color::Black, "reachable");
}

#[kani::proof]
#[kani::unwind(66)]
fn c11_reader_castling_field_contract() {
    reader_field_obligation(0)
}

#[kani::proof]
#[kani::unwind(66)]
fn c11_reader_en_passant_field_contract() {
    reader_field_obligation(1)
}

#[kani::proof]
#[kani::unwind(66)]
fn c11_reader_clock_fields_contract() {
    reader_field_obligation(2)
}

/// Reader contract, part B: the dash forms -- "-" for no castling right and "-" for no en-passant target
#[kani::proof]
#[kani::unwind(66)]
fn c11_reader_dashes_contract() {
    let turn = any_color();
    let groups = Groups(["", "4k3/8/8/8/8/8/8/4K3", "", if turn == Color::White { "w" } else { "b" }, "-", "", "-", "0", "1"]);
    let r = fen_reader_after_regex(&groups);
    assert!(r.is_ok());
    let st = r.unwrap();
    assert!(st.turn_to_move() == turn && st.en_passant_target().is_none());
    assert!(st.castle_rights(Color::White).none() && st.castle_rights(Color::Black).none());
    assert!(st.clock().halfmove_clock == 0 && st.clock().fullmove_number == 1);
    kani::cover!(turn == Color::Black, "reachable");
}

// ---- bounded stand-in (native, exhaustive over the finite non-placement domain): writer and FULL reader, regex included ----

#[cfg(test)]
mod native {
    use super::*;
    use crate::notation::{into_notation, try_from_notation};

    #[test]
    fn c11_native_fields_exhaustive() {
        let placements = ["4k3/8/8/8/8/8/8/4K3", "r3k2r/8/8/8/8/8/8/R3K2R", "rnbqkbnr/pppppppp/8/8/8/8/PPPPPPPP/RNBQKBNR"];
        let clocks: [usize; 8] = [0, 1, 9, 10, 99, 100, 101, 65535];
        let mut count = 0u64;
        for placement in placements {
            for side in ["w", "b"] {
                for bits in 0u8..16 {
                    let mut cb = [0u8; 96];
                    let mut cn = 0usize;
                    spec_castle_field(bits, &mut cb, &mut cn);
                    let castle = std::str::from_utf8(&cb[..cn]).unwrap().to_string();
                    for ep in 0u8..=64 {
                        let ep_txt = if ep == 64 { "-".to_string() } else { format!("{}{}", (b'a' + ep % 8) as char, (b'1' + ep / 8) as char) };
                        for (i, h) in clocks.iter().enumerate() {
                            let f = clocks[(i + 3) % clocks.len()];
                            let fen = format!("{} {} {} {} {} {}", placement, side, castle, ep_txt, h, f);
                            let state: State = try_from_notation::<State, Fen>(&fen).expect("canonical FEN must be read");
                            // read: exactly the components spelled
                            assert_eq!(state.turn_to_move() == Color::White, side == "w", "{}", fen);
                            assert_eq!(state.castle_rights(Color::White).kingside, bits & 1 != 0, "{}", fen);
                            assert_eq!(state.castle_rights(Color::White).queenside, bits & 2 != 0, "{}", fen);
                            assert_eq!(state.castle_rights(Color::Black).kingside, bits & 4 != 0, "{}", fen);
                            assert_eq!(state.castle_rights(Color::Black).queenside, bits & 8 != 0, "{}", fen);
                            assert_eq!(state.en_passant_target().map(|s| sq_u8(s)), if ep == 64 { None } else { Some(ep) }, "{}", fen);
                            assert_eq!(state.clock().halfmove_clock, *h, "{}", fen);
                            assert_eq!(state.clock().fullmove_number, f, "{}", fen);
                            // written back character for character
                            assert_eq!(into_notation::<_, Fen>(&state).to_string(), fen);
                            count += 1;
                        }
                    }
                }
            }
        }
        println!("NATIVE-COUNT {}", count);
    }
}
