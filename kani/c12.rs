//! C12 -- move text resolves to exactly the intended move (SAN parser, MoveQuery::test, LAN writer)
//! C14 -- the SAN parser and the square/file/rank readers are total.
//! Child module of `weechess_core::notation`.
use super::*;
use crate::verif_spec::*;
use crate::{File, Move, MoveQuery, Piece, Rank, Side, Square};

// ---------------------------------------------------------------------------------------------------------------
// spec writer: the ASCII spelling of a SAN field tuple
// ---------------------------------------------------------------------------------------------------------------
#[derive(Clone, Copy)]
pub struct SanFields {
    pub piece: Option<Piece>, // letter spelled (K Q R B N, or P) -- None: no letter (pawn move)
    pub origin_file: Option<u8>,
    pub origin_rank: Option<u8>,
    pub capture: bool,
    pub dest_file: u8,
    pub dest_rank: u8,
    pub promotion: Option<Piece>, // Q R B N
    pub promotion_eq: bool,       // spelled with '='
    pub suffix: u8,               // 0 none, 1 '+', 2 '#'
}

fn any_opt_u8_lt8() -> Option<u8> {
    if kani::any() {
        let x: u8 = kani::any();
        kani::assume(x < 8);
        Some(x)
    } else {
        None
    }
}

pub fn any_san_fields() -> SanFields {
    let piece = any_opt_kind();
    let promotion = any_opt_kind();
    kani::assume(promotion != Some(Piece::Pawn) && promotion != Some(Piece::King));
    let dest_file: u8 = kani::any();
    let dest_rank: u8 = kani::any();
    let suffix: u8 = kani::any();
    kani::assume(dest_file < 8 && dest_rank < 8 && suffix < 3);
    SanFields {
        piece,
        origin_file: any_opt_u8_lt8(),
        origin_rank: any_opt_u8_lt8(),
        capture: kani::any(),
        dest_file,
        dest_rank,
        promotion,
        promotion_eq: kani::any(),
        suffix,
    }
}

fn letter(p: Piece) -> u8 {
    match p {
        Piece::King => b'K',
        Piece::Queen => b'Q',
        Piece::Rook => b'R',
        Piece::Bishop => b'B',
        Piece::Knight => b'N',
        Piece::Pawn => b'P',
        Piece::None => b'?',
    }
}

/// writes the spelling into buf, returns the length (<= 10)
pub fn spec_san_spelling(f: &SanFields, buf: &mut [u8; 10]) -> usize {
    let mut n = 0;
    if let Some(p) = f.piece {
        buf[n] = letter(p);
        n += 1;
    }
    if let Some(x) = f.origin_file {
        buf[n] = b'a' + x;
        n += 1;
    }
    if let Some(x) = f.origin_rank {
        buf[n] = b'1' + x;
        n += 1;
    }
    if f.capture {
        buf[n] = b'x';
        n += 1;
    }
    buf[n] = b'a' + f.dest_file;
    n += 1;
    buf[n] = b'1' + f.dest_rank;
    n += 1;
    if let Some(p) = f.promotion {
        if f.promotion_eq {
            buf[n] = b'=';
            n += 1;
        }
        buf[n] = letter(p);
        n += 1;
    }
    if f.suffix == 1 {
        buf[n] = b'+';
        n += 1;
    } else if f.suffix == 2 {
        buf[n] = b'#';
        n += 1;
    }
    n
}

fn file_of_idx(q: Option<File>) -> Option<u8> {
    q.map(|f| f.index() as u8)
}
fn rank_of_idx(q: Option<Rank>) -> Option<u8> {
    q.map(|r| r.index() as u8)
}

/// The parser inverts the spec writer on EVERY admissible field tuple: exactly the spelled fields are set
/// (piece defaults to Pawn), nothing else.
#[kani::proof]
#[kani::unwind(13)]
fn c12_san_parser_inverts_spelling() {
    let f = any_san_fields();
    let mut buf = [0u8; 10];
    let n = spec_san_spelling(&f, &mut buf);
    let text = std::str::from_utf8(&buf[..n]).unwrap();
    let r = try_from_notation::<MoveQuery, San>(text);
    assert!(r.is_ok());
    let q = r.unwrap();
    assert!(q.piece == Some(f.piece.unwrap_or(Piece::Pawn)));
    assert!(file_of_idx(q.origin_file) == f.origin_file);
    assert!(rank_of_idx(q.origin_rank) == f.origin_rank);
    assert!(file_of_idx(q.dest_file) == Some(f.dest_file));
    assert!(rank_of_idx(q.dest_rank) == Some(f.dest_rank));
    assert!(q.promotion == f.promotion);
    assert!(q.castle.is_none());
    assert!(q.is_capture == if f.capture { Some(true) } else { None });
    kani::cover!(n == 9, "longest spelling reachable");
    kani::cover!(n == 2, "shortest spelling reachable");
}

#[kani::proof]
#[kani::unwind(8)]
fn c12_san_castles() {
    let suffix: u8 = kani::any();
    kani::assume(suffix < 3);
    let long: bool = kani::any();
    let mut buf = [0u8; 6];
    let mut n = 0;
    for b in if long { &b"O-O-O"[..] } else { &b"O-O"[..] } {
        buf[n] = *b;
        n += 1;
    }
    if suffix > 0 {
        buf[n] = if suffix == 1 { b'+' } else { b'#' };
        n += 1;
    }
    let q = try_from_notation::<MoveQuery, San>(std::str::from_utf8(&buf[..n]).unwrap()).unwrap();
    assert!(q.castle == Some(if long { Side::Queen } else { Side::King }));
    assert!(q.piece.is_none() && q.origin_file.is_none() && q.origin_rank.is_none() && q.dest_file.is_none());
    assert!(q.dest_rank.is_none() && q.promotion.is_none() && q.is_capture.is_none());
    kani::cover!(long && suffix == 2, "reachable");
}

// ---------------------------------------------------------------------------------------------------------------
// MoveQuery::test: matches exactly the moves that agree with every field that is set
// ---------------------------------------------------------------------------------------------------------------
fn any_opt_file() -> Option<File> {
    any_opt_u8_lt8().map(|x| File::from_index(x as usize).unwrap())
}
fn any_opt_rank() -> Option<Rank> {
    any_opt_u8_lt8().map(|x| Rank::from_index(x as usize).unwrap())
}

#[kani::proof]
fn c12_move_query_test_contract() {
    let q = MoveQuery {
        piece: any_opt_kind(),
        origin_rank: any_opt_rank(),
        origin_file: any_opt_file(),
        dest_rank: any_opt_rank(),
        dest_file: any_opt_file(),
        promotion: any_opt_kind(),
        castle: if kani::any() { Some(if kani::any() { Side::King } else { Side::Queen }) } else { None },
        is_capture: if kani::any() { Some(kani::any()) } else { None },
    };
    let m: Move = kani::any();
    let o = sq_u8(m.origin());
    let d = sq_u8(m.destination());
    let spec = q.piece.map_or(true, |p| p == m.piece())
        && q.origin_rank.map_or(true, |r| r.index() as u8 == o / 8)
        && q.origin_file.map_or(true, |f| f.index() as u8 == o % 8)
        && q.dest_rank.map_or(true, |r| r.index() as u8 == d / 8)
        && q.dest_file.map_or(true, |f| f.index() as u8 == d % 8)
        // the stated leniency: a promotion field also matches a non-promotion move of that piece kind
        && q.promotion.map_or(true, |p| p == m.promotion().unwrap_or(m.piece()))
        && q.castle.map_or(true, |s| m.castle_side() == Some(s))
        && q.is_capture.map_or(true, |c| c == m.capture().is_some());
    assert!(q.test(&m) == spec);
    kani::cover!(q.test(&m), "match reachable");
    kani::cover!(!q.test(&m), "mismatch reachable");
}

/// coordinates select by (origin, destination, promotion): the query built the way the UCI reader builds it matches
/// a move iff origin and destination agree and the promotion agrees (None in the text matches any promotion state)
#[kani::proof]
fn c12_coordinate_query_contract() {
    let (o, d) = (any_square(), any_square());
    let promo = any_opt_kind();
    let mut q = MoveQuery::new();
    q.set_origin(o);
    q.set_destination(d);
    if let Some(p) = promo {
        q.set_promotion(p);
    }
    let q2 = MoveQuery::by_moving_from_to(o, d);
    let m: Move = kani::any();
    let same_squares = m.origin() == o && m.destination() == d;
    assert!(q2.test(&m) == same_squares);
    assert!(q.test(&m) == (same_squares && promo.map_or(true, |p| p == m.promotion().unwrap_or(m.piece()))));
    kani::cover!(q.test(&m) && promo.is_some(), "reachable");
}

// ---------------------------------------------------------------------------------------------------------------
// LAN writer: origin, destination, lower-case promotion letter
// ---------------------------------------------------------------------------------------------------------------
struct Buf {
    b: [u8; 8],
    n: usize,
}
impl std::fmt::Write for Buf {
    fn write_str(&mut self, s: &str) -> std::fmt::Result {
        for c in s.bytes() {
            if self.n >= 8 {
                return Err(std::fmt::Error);
            }
            self.b[self.n] = c;
            self.n += 1;
        }
        Ok(())
    }
}

#[kani::proof]
#[kani::unwind(9)]
fn c12_lan_writer_contract() {
    use std::fmt::Write;
    let m: Move = kani::any();
    let mut out = Buf { b: [0; 8], n: 0 };
    let r = write!(out, "{}", into_notation::<_, lan::Lan>(&m));
    assert!(r.is_ok());
    let o = sq_u8(m.origin());
    let d = sq_u8(m.destination());
    assert!(out.b[0] == b'a' + o % 8 && out.b[1] == b'1' + o / 8);
    assert!(out.b[2] == b'a' + d % 8 && out.b[3] == b'1' + d / 8);
    match m.promotion() {
        None => assert!(out.n == 4),
        Some(p) => {
            assert!(out.n == 5);
            assert!(out.b[4] == letter(p).to_ascii_lowercase());
        }
    }
    kani::cover!(m.promotion() == Some(Piece::Knight), "promotion reachable");
}

// ---------------------------------------------------------------------------------------------------------------
// C14: totality (no panic, no overflow, termination within the unwinding bound) on arbitrary text
// ---------------------------------------------------------------------------------------------------------------
/// An arbitrary string of at most `max` bytes that is ASCII except for at most ONE arbitrary non-ASCII char (of UTF-8
/// width 2, 3 or 4) at an arbitrary position.  The readers under test classify chars only by ASCII predicates and by
/// byte offsets, so one wide char at any position exercises every char-boundary case; strings with several wide
/// chars add no new behaviour (stated, not machine-checked).  Built in a fixed buffer: no heap, no validation loop.
pub fn any_text<'a>(buf: &'a mut [u8; 16], max: usize) -> &'a str {
    let n: usize = kani::any();
    kani::assume(n <= max && max <= 16);
    let wide: char = kani::any();
    let has_wide: bool = kani::any();
    let mut enc = [0u8; 4];
    let w = if has_wide {
        kani::assume(wide as u32 >= 128);
        wide.encode_utf8(&mut enc).len()
    } else {
        0
    };
    let p: usize = kani::any();
    kani::assume(w <= n && p <= n - w);
    let mut i = 0;
    while i < 16 {
        if i >= p && i < p + w {
            buf[i] = enc[i - p];
        } else {
            let c: u8 = kani::any();
            kani::assume(c < 128);
            buf[i] = c;
        }
        i += 1;
    }
    // SAFETY (harness only): ASCII bytes with one complete UTF-8 sequence produced by encode_utf8
    unsafe { std::str::from_utf8_unchecked(&buf[..n]) }
}

fn san_total(max: usize) {
    let mut buf = [0u8; 16];
    let s = any_text(&mut buf, max);
    let r = try_from_notation::<MoveQuery, San>(s);
    if let Ok(q) = r {
        // whatever is accepted is a well-formed query
        assert!(q.castle.is_some() || q.piece.is_some());
    }
    kani::cover!(r.is_ok(), "accepted text reachable");
    kani::cover!(r.is_err(), "rejected text reachable");
    kani::cover!(s.len() == max && !s.is_ascii(), "full-length non-ASCII text reachable");
}

#[kani::proof]
#[kani::unwind(18)]
fn c14_san_total_8() {
    san_total(8)
}

#[kani::proof]
#[kani::unwind(18)]
fn c14_san_total_14() {
    san_total(14)
}

#[kani::proof]
#[kani::unwind(18)]
fn c14_square_file_rank_total() {
    let c: char = kani::any();
    let f = File::from_char(c);
    let r = Rank::from_char(c);
    assert!(f.is_some() == (('a'..='h').contains(&c) || ('A'..='H').contains(&c)));
    assert!(r.is_some() == ('1'..='8').contains(&c));
    let mut buf = [0u8; 16];
    let s = any_text(&mut buf, 4);
    let sq = Square::try_from(s);
    if let Ok(x) = sq {
        assert!(sq_u8(x) < 64 && s.len() == 2);
    }
    kani::cover!(sq.is_ok(), "valid square text reachable");
    kani::cover!(sq.is_err() && s.len() == 2, "two-byte non-square reachable");
}

// ---------------------------------------------------------------------------------------------------------------
// MoveSet::find -- the resolver used when SAN text is applied to a position (book parser, CLI)
// ---------------------------------------------------------------------------------------------------------------
fn model_vec_push<T, A: std::alloc::Allocator>(v: &mut Vec<T, A>, value: T) {
    let len = v.len();
    assert!(len < v.capacity(), "the harness vector has spare capacity");
    unsafe {
        std::ptr::write(v.as_mut_ptr().add(len), value);
        v.set_len(len + 1);
    }
}

/// MoveSet::find(query) over a list of up to three arbitrary moves: it returns the FIRST move of the list that the query
/// matches (MoveQuery::test is under contract above) together with that move's own successor, and None exactly when no
/// move matches.  (Each successor is tagged through its clocks so that a move paired with another move's successor
/// would show.)
#[kani::proof]
#[kani::unwind(8)]
#[kani::stub(std::vec::Vec::push, model_vec_push)]
fn c12_moveset_find_contract() {
    let raws: [u32; 3] = kani::any();
    let n: usize = kani::any();
    kani::assume(n <= 3);
    kani::assume(crate::moves::verif_c20::valid_raw(raws[0]) && crate::moves::verif_c20::valid_raw(raws[1]) && crate::moves::verif_c20::valid_raw(raws[2]));
    let mut v: Vec<crate::MoveResult> = Vec::with_capacity(3);
    let mut i = 0;
    while i < 3 {
        if i < n {
            let st = crate::State::new(
                board_from(&[0u64; 16]),
                crate::Color::White,
                crate::utils::ArrayMap::new([crate::CastleRights::NONE, crate::CastleRights::NONE]),
                None,
                crate::Clock { halfmove_clock: 100 + i, fullmove_number: 1 },
            );
            v.push(crate::MoveResult(crate::moves::verif_c20::move_from_raw(raws[i]), st));
        }
        i += 1;
    }
    let set = crate::MoveSet::new(v);
    // a symbolic query over the fields SAN and coordinate text can set
    let mut q = MoveQuery::new();
    if kani::any() {
        q.set_origin(any_square());
    }
    if kani::any() {
        q.set_destination(any_square());
    }
    if kani::any() {
        q.set_piece(any_kind());
    }
    if let Some(k) = any_opt_kind() {
        q.set_promotion(k);
    }
    let mut first: Option<usize> = None;
    let mut i = 0;
    while i < 3 {
        if i < n && first.is_none() && q.test(&crate::moves::verif_c20::move_from_raw(raws[i])) {
            first = Some(i);
        }
        i += 1;
    }
    let r = set.find(&q);
    match (r, first) {
        (None, None) => {}
        (Some(crate::MoveResult(m, s)), Some(i)) => {
            assert!(m.as_raw() == raws[i], "the first matching move of the list");
            assert!(s.clock().halfmove_clock == 100 + i, "paired with its own successor");
        }
        _ => assert!(false, "find answers exactly when some move matches"),
    }
    kani::cover!(first == Some(2), "third move matches reachable");
    kani::cover!(first.is_none() && n == 3, "no match reachable");
    std::mem::forget(set);
}

/// The line writer `IntoNotation<&[Move]> for Lan` (the `info pv` line): the moves' coordinate texts in order, separated by
/// single spaces, nothing before or after -- for lines of up to two arbitrary moves through the real core::fmt.
#[kani::proof]
#[kani::unwind(12)]
fn c12_lan_line_writer_contract() {
    use std::fmt::Write;
    struct Line {
        b: [u8; 16],
        n: usize,
    }
    impl std::fmt::Write for Line {
        fn write_str(&mut self, s: &str) -> std::fmt::Result {
            let bytes = s.as_bytes();
            let mut i = 0;
            while i < bytes.len() {
                if self.n >= 16 {
                    return Err(std::fmt::Error);
                }
                self.b[self.n] = bytes[i];
                self.n += 1;
                i += 1;
            }
            Ok(())
        }
    }
    let moves: [Move; 2] = [kani::any(), kani::any()];
    let n: usize = kani::any();
    kani::assume(n <= 2);
    let slice: &[Move] = &moves[..n];
    let mut out = Line { b: [0; 16], n: 0 };
    let r = write!(out, "{}", into_notation::<_, lan::Lan>(&slice));
    assert!(r.is_ok());
    // expected text
    let mut e = [0u8; 16];
    let mut k = 0usize;
    let mut i = 0;
    while i < 2 {
        if i < n {
            if i > 0 {
                e[k] = b' ';
                k += 1;
            }
            let m = &moves[i];
            let (o, d) = (sq_u8(m.origin()), sq_u8(m.destination()));
            e[k] = b'a' + o % 8;
            e[k + 1] = b'1' + o / 8;
            e[k + 2] = b'a' + d % 8;
            e[k + 3] = b'1' + d / 8;
            k += 4;
            if let Some(p) = m.promotion() {
                e[k] = letter(p).to_ascii_lowercase();
                k += 1;
            }
        }
        i += 1;
    }
    assert!(out.n == k);
    let j: usize = kani::any();
    kani::assume(j < 16);
    assert!(j >= k || out.b[j] == e[j]);
    kani::cover!(n == 2 && moves[0].promotion().is_some(), "two moves, first a promotion");
    kani::cover!(n == 0, "empty line");
}
