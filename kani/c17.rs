//! C17 -- positions already seen are treated as draws (the local rule of analyze_recursive / analyze_iterative)
//! C03 -- the principal-line builder (TranspositionTableMoveIterator::next).
//! Child module of `weechess_engine::searcher`.
use super::*;
use weechess_core::{Color, Move, MoveResult, State};

// 32-byte statics only (an 8-byte `static mut u64` trips a Kani 0.68 deallocation artefact, see c05.rs)
static mut FLAGS: [bool; 8] = [false; 8]; // 0 lookup called, 1 table read, 2 table written, 3 generator called, 4 lookup hit
static mut WORDS: [u64; 4] = [0; 4]; // 0 position hash, 1 hash passed to increment, 2 number of increments, 3 increments of another hash

fn stub_hash(_h: &ZobristHasher, _s: &State) -> Hash {
    unsafe { WORDS[0] }
}
static ONE: usize = 1;
fn stub_lookup<'a>(_h: &'a StateHistory, hash: &Hash) -> Option<&'a usize> {
    unsafe {
        FLAGS[0] = true;
        assert!(*hash == WORDS[0]);
        if FLAGS[4] {
            Some(&ONE)
        } else {
            None
        }
    }
}
fn stub_increment(_h: &mut StateHistory, hash: Hash) {
    unsafe {
        WORDS[1] = hash;
        WORDS[2] += 1;
        if hash != WORDS[0] {
            WORDS[3] += 1; // a hash other than the root position's was recorded
        }
    }
}

static mut ENTRY: [u64; 4] = [0; 4]; // 0: present?, 1: raw move, 2: evaluation, 3: kind

fn stored_entry() -> Option<TranspositionEntry> {
    let e = unsafe { ENTRY };
    if e[0] & 1 == 0 {
        return None;
    }
    Some(TranspositionEntry {
        kind: match e[3] % 3 {
            0 => EvaluationKind::Exact,
            1 => EvaluationKind::UpperBound,
            _ => EvaluationKind::LowerBound,
        },
        performed_move: weechess_core::verif_c20::move_from_raw(e[1] as u32),
        depth: 0,
        max_depth: usize::MAX,
        evaluation: Evaluation::from(e[2] as i32),
    })
}
fn stub_tt_find(_t: &TranspositionTableAccess, hash: Hash) -> Option<TranspositionEntry> {
    unsafe {
        FLAGS[1] = true;
        assert!(hash == WORDS[0]);
    }
    stored_entry()
}
fn stub_tt_insert(_t: &TranspositionTableAccess, _hash: Hash, _e: TranspositionEntry) {
    unsafe {
        FLAGS[2] = true;
    }
}
fn stub_generator(_s: &State, _r: &mut Vec<PseudoLegalMove>) {
    unsafe {
        FLAGS[3] = true;
    }
}
fn stub_saturation(_t: &TranspositionTableAccess) -> f32 {
    0.0
}

fn two_kings_state() -> State {
    let wk: u8 = kani::any();
    let bk: u8 = kani::any();
    kani::assume(wk < 64 && bk < 64 && wk != bk);
    let mut p = [weechess_core::BitBoard::ZERO; 16];
    p[6] = weechess_core::BitBoard::new(1u64 << wk);
    p[14] = weechess_core::BitBoard::new(1u64 << bk);
    State::new(
        weechess_core::Board::new(weechess_core::utils::ArrayMap::new(p)),
        if kani::any() { Color::White } else { Color::Black },
        weechess_core::utils::ArrayMap::new([weechess_core::CastleRights::NONE, weechess_core::CastleRights::NONE]),
        None,
        weechess_core::Clock { halfmove_clock: any_clock(), fullmove_number: any_clock() },
    )
}

/// machine range (a precondition of by_performing_move's contract, see C02): the clocks can still be incremented
fn any_clock() -> usize {
    let c: usize = kani::any();
    kani::assume(c < usize::MAX);
    c
}

fn reset() {
    unsafe {
        FLAGS = [false; 8];
        WORDS = kani::any();
        WORDS[2] = 0;
        WORDS[3] = 0;
        ENTRY = kani::any();
        kani::assume(weechess_core::verif_c20::valid_raw(ENTRY[1] as u32));
    }
}

/// analyze_recursive, current_depth > 0, the position's hash is recorded in the history: the answer is exactly EVEN,
/// the transposition table is neither read nor written, no move is generated, exactly one node is counted.
#[kani::proof]
#[kani::unwind(18)]
#[kani::stub(weechess_core::ZobristHasher::hash, stub_hash)]
#[kani::stub(StateHistory::lookup, stub_lookup)]
#[kani::stub(TranspositionTableAccess::find, stub_tt_find)]
#[kani::stub(TranspositionTableAccess::insert, stub_tt_insert)]
#[kani::stub(weechess_core::MoveGenerator::compute_psuedo_legal_moves_into, stub_generator)]
fn c17_repetition_is_a_draw() {
    reset();
    unsafe {
        FLAGS[4] = true; // the history knows this position
    }
    let state = two_kings_state();
    let evaluator = eval::Evaluator::default();
    let token = CancellationToken::new().0;
    let hasher = weechess_core::verif_c08::sym_hasher();
    // StateHistory wraps a std HashMap whose constructor needs OS randomness (not executable in CBMC); every access
    // to it is replaced by a stub, so a never-read placeholder object is enough
    let placeholder = std::mem::MaybeUninit::<StateHistory>::zeroed();
    let history: &StateHistory = unsafe { &*placeholder.as_ptr() };
    let tt = TranspositionTableAccess { tables: Vec::new() };
    // the RNG is only used for move ordering after move generation, which these paths never reach; constructing a
    // real ChaCha8Rng executes CPU feature detection (inline asm, unsupported by Kani), so a placeholder is used
    let mut rng_placeholder = std::mem::MaybeUninit::<ChaCha8Rng>::zeroed();
    let rng: &mut ChaCha8Rng = unsafe { &mut *rng_placeholder.as_mut_ptr() };
    let mut buf: Vec<PseudoLegalMove> = Vec::new();
    let mut nodes: usize = kani::any();
    kani::assume(nodes < usize::MAX);
    let nodes0 = nodes;
    let max_depth: usize = kani::any();
    let current_depth: usize = kani::any();
    kani::assume(current_depth > 0);
    let alpha = Evaluation::from(kani::any::<i32>());
    let beta = Evaluation::from(kani::any::<i32>());
    let r = Searcher::analyze_recursive(
        &state, &evaluator, &token, &hasher, history, &tt, max_depth, current_depth, kani::any(), alpha, beta, None,
        rng, &mut buf, &mut nodes,
    );
    match r {
        Ok(e) => assert!(e == Evaluation::EVEN),
        Err(_) => assert!(false),
    }
    unsafe {
        assert!(FLAGS[0] && !FLAGS[1] && !FLAGS[2] && !FLAGS[3]);
    }
    assert!(nodes == nodes0 + 1);
    kani::cover!(current_depth > 5, "deep node reachable");
}

/// analyze_recursive at the root (current_depth == 0): the history is NOT consulted (the root position is always in
/// the history, it must not be a draw); the table is probed with the position's hash and a sufficiently deep exact
/// entry is returned as is.
#[kani::proof]
#[kani::unwind(18)]
#[kani::stub(weechess_core::ZobristHasher::hash, stub_hash)]
#[kani::stub(StateHistory::lookup, stub_lookup)]
#[kani::stub(TranspositionTableAccess::find, stub_tt_find)]
#[kani::stub(TranspositionTableAccess::insert, stub_tt_insert)]
#[kani::stub(weechess_core::MoveGenerator::compute_psuedo_legal_moves_into, stub_generator)]
fn c17_root_is_not_a_repetition() {
    reset();
    unsafe {
        FLAGS[4] = true;
        ENTRY[0] = 1;
        ENTRY[3] = 0; // an Exact entry searched to unbounded depth
    }
    let state = two_kings_state();
    let evaluator = eval::Evaluator::default();
    let token = CancellationToken::new().0;
    let hasher = weechess_core::verif_c08::sym_hasher();
    // StateHistory wraps a std HashMap whose constructor needs OS randomness (not executable in CBMC); every access
    // to it is replaced by a stub, so a never-read placeholder object is enough
    let placeholder = std::mem::MaybeUninit::<StateHistory>::zeroed();
    let history: &StateHistory = unsafe { &*placeholder.as_ptr() };
    let tt = TranspositionTableAccess { tables: Vec::new() };
    // the RNG is only used for move ordering after move generation, which these paths never reach; constructing a
    // real ChaCha8Rng executes CPU feature detection (inline asm, unsupported by Kani), so a placeholder is used
    let mut rng_placeholder = std::mem::MaybeUninit::<ChaCha8Rng>::zeroed();
    let rng: &mut ChaCha8Rng = unsafe { &mut *rng_placeholder.as_mut_ptr() };
    let mut buf: Vec<PseudoLegalMove> = Vec::new();
    let mut nodes: usize = 0;
    let max_depth: usize = kani::any();
    let r = Searcher::analyze_recursive(
        &state, &evaluator, &token, &hasher, history, &tt, max_depth, 0, 0, -Evaluation::mate_in_ply(0),
        Evaluation::mate_in_ply(0), None, rng, &mut buf, &mut nodes,
    );
    let stored = stored_entry().unwrap();
    match r {
        Ok(e) => assert!(e == stored.evaluation),
        Err(_) => assert!(false),
    }
    unsafe {
        assert!(!FLAGS[0] && FLAGS[1] && !FLAGS[2] && !FLAGS[3]);
    }
    kani::cover!(true, "reachable");
}

// ---- the head of analyze_iterative --------------------------------------------------------------------------------------
// Any harness that reaches the iterative-deepening loop of analyze_iterative makes the Kani 0.68 compiler panic (the
// catch_unwind intrinsic pulled in by rayon's par_iter).  Everything BEFORE the loop is extracted textually and verbatim on
// every run (driver: EXTRACTS kind "fn_range", from `let max_depth = ..` up to, not including, `for depth in 0..max_depth {`)
// and wrapped as a function of the four parameters the head uses, returning the four locals the loop goes on with.
include!("analyze_iterative_head_extracted.rs");

/// With a search memory handed over (the only case in which the history can hold anything): the root position's hash is
/// computed with the memory's hasher and recorded (and nothing else is) before the first iteration; nothing is looked up.
#[kani::proof]
#[kani::unwind(18)]
#[kani::stub(weechess_core::ZobristHasher::hash, stub_hash)]
#[kani::stub(StateHistory::lookup, stub_lookup)]
#[kani::stub(StateHistory::increment, stub_increment)]
fn c17_root_hash_is_recorded() {
    reset();
    let state = two_kings_state();
    let rng = unsafe { std::mem::MaybeUninit::<RandomNumberGenerator>::zeroed().assume_init() };
    let max_depth: Option<usize> = if kani::any() { Some(kani::any()) } else { None };
    let (hasher, tt, history, root_hash) = analyze_iterative_head(state, rng, max_depth, Some(placeholder_artifact()));
    unsafe {
        assert!(root_hash == WORDS[0], "the root hash is the hasher's hash of the root position");
        // (recording it more than once would not break the property: the history is a multiset and only membership is asked)
        assert!(WORDS[2] >= 1, "the root position's hash is recorded before the first iteration");
        assert!(WORDS[3] == 0 && WORDS[1] == WORDS[0], "nothing but the root position's hash is recorded");
        assert!(!FLAGS[0] && !FLAGS[1] && !FLAGS[2]);
    }
    kani::cover!(max_depth.is_none(), "unbounded search reachable");
    std::mem::forget((hasher, tt, history));
}

// ---- C03: the line builder -------------------------------------------------------------------------------------------

/// TranspositionTableMoveIterator::next: stops when the index passed max_depth or the table holds nothing under the
/// current position's hash; otherwise yields the stored move TOGETHER WITH by_performing_move(current, move), makes
/// that successor the current position and advances the index -- so every later move is looked up and applied in the
/// position reached so far.  (That the stored move is legal in the current position is the table invariant, see
/// DESIGN.md; the successor function is C02's contract.)
#[kani::proof]
#[kani::unwind(18)]
#[kani::stub(weechess_core::ZobristHasher::hash, stub_hash)]
#[kani::stub(TranspositionTableAccess::find, stub_tt_find)]
fn c03_line_iterator_step() {
    reset();
    let state = two_kings_state();
    let hasher = weechess_core::verif_c08::sym_hasher();
    let tt = TranspositionTableAccess { tables: Vec::new() };
    let max_depth: usize = kani::any();
    let index: usize = kani::any();
    kani::assume(index < usize::MAX);
    let mut it = TranspositionTableMoveIterator {
        access: &tt,
        hasher: &hasher,
        max_depth,
        current_index: index,
        current_game_state: state.clone(),
    };
    let r = it.next();
    let stored = stored_entry();
    if index > max_depth {
        assert!(r.is_none());
        unsafe {
            assert!(!FLAGS[1]);
        }
    } else if stored.is_none() {
        assert!(r.is_none());
    } else {
        let mv = stored.unwrap().performed_move;
        match State::by_performing_move(&state, &mv) {
            Ok(next) => {
                assert!(r.is_some());
                let MoveResult(m, s) = r.unwrap();
                assert!(m == mv);
                assert!(same_position(&s, &next) && same_position(&it.current_game_state, &next));
                assert!(it.current_index == index + 1);
            }
            Err(_) => assert!(r.is_none()),
        }
    }
    kani::cover!(index <= max_depth && stored.is_some(), "yielding step reachable");
}

/// TranspositionTableAccess::iter_moves starts the walk AT the position handed in, with index 0 and the given depth limit:
/// its first step looks up that position's hash and yields (stored move, successor of that position) -- or nothing when
/// the table holds nothing for it.
#[kani::proof]
#[kani::unwind(18)]
#[kani::stub(weechess_core::ZobristHasher::hash, stub_hash)]
#[kani::stub(TranspositionTableAccess::find, stub_tt_find)]
fn c03_line_starts_at_the_root() {
    reset();
    let state = two_kings_state();
    let hasher = weechess_core::verif_c08::sym_hasher();
    let tt = TranspositionTableAccess { tables: Vec::new() };
    let max_depth: usize = kani::any();
    let r = tt.iter_moves(&hasher, &state, max_depth).next();
    let reported = r.is_some();
    let stored = stored_entry();
    unsafe {
        assert!(FLAGS[1], "index 0 never exceeds the depth limit: the table is asked");
    }
    match stored {
        None => assert!(r.is_none()),
        Some(e) => match State::by_performing_move(&state, &e.performed_move) {
            Ok(next) => {
                assert!(r.is_some());
                let MoveResult(m, s) = r.unwrap();
                assert!(m == e.performed_move && same_position(&s, &next));
            }
            Err(_) => assert!(r.is_none()),
        },
    }
    kani::cover!(reported, "a first move is reported");
}

fn same_position(a: &State, b: &State) -> bool {
    let mut same = a.turn_to_move() == b.turn_to_move()
        && a.en_passant_target() == b.en_passant_target()
        && a.castle_rights(Color::White) == b.castle_rights(Color::White)
        && a.castle_rights(Color::Black) == b.castle_rights(Color::Black)
        && a.clock().halfmove_clock == b.clock().halfmove_clock
        && a.clock().fullmove_number == b.clock().fullmove_number;
    let mut i = 0u8;
    while i < 16 {
        let pi = weechess_core::PieceIndex(i);
        same = same && a.board().piece_occupancy(pi) == b.board().piece_occupancy(pi);
        i += 1;
    }
    same
}

/// (for harnesses in other modules of the crate) a search artifact whose heap-owning parts are all-zero placeholders: an
/// empty Vec and an empty HashMap have no allocation, so dropping it frees nothing; its content is never read
pub fn placeholder_artifact() -> SearchArtifact {
    SearchArtifact {
        hasher: weechess_core::verif_c08::sym_hasher(),
        transpositions: TranspositionTableAccess { tables: Vec::new() },
        state_history: unsafe { std::mem::MaybeUninit::<StateHistory>::zeroed().assume_init() },
    }
}
