//! C18 -- `ucinewgame` starts from a clean search memory.  Child module of `weechess_engine::uci`.
//!
//! The `ucinewgame` arm of the UCI command loop (`Client::exec`) is extracted textually and verbatim on every run
//! (driver/inject.py: extract_closure_body on the marker `Some((&"ucinewgame", _)) => {`) into
//! `ucinewgame_extracted.rs` and wrapped as a function over the two loop-local variables the arm can touch
//! (`current_search`, `previous_artifact`), which it receives and hands back.
//!
//! What the extraction changes, exactly: the type of the running search is the trait-bounded parameter `S` instead of
//! the concrete `Search` (whose two `JoinHandle`s make the Kani 0.68 compiler panic in std's thread drop glue), i.e. the
//! callee `Search::wait_cancel` is replaced by its signature contract `wait_cancel(self) -> Artifact` ("stops and joins
//! the search and hands back its memory").  The body of the arm is not touched.  `impl SearchLike for Search` below is
//! compiled (never executed) and ties the trait to the real signature: if `Search::wait_cancel` changes shape the
//! crate no longer builds and the check ends undecided.
use super::*;

pub trait SearchLike {
    type Artifact;
    fn wait_cancel(self) -> Self::Artifact;
}

impl SearchLike for Search {
    type Artifact = SearchArtifact;
    fn wait_cancel(self) -> SearchArtifact {
        Search::wait_cancel(self)
    }
}

include!("ucinewgame_extracted.rs");

// oracle state in a 32-byte array (an 8-byte static triggers a Kani 0.68 artefact, DESIGN.md section 0 item 3)
static mut LOG: [u8; 32] = [0; 32];

struct RunningSearch {
    id: u8,
}
struct Memory {
    #[allow(dead_code)]
    from: u8,
}
impl SearchLike for RunningSearch {
    type Artifact = Memory;
    fn wait_cancel(self) -> Memory {
        unsafe {
            LOG[0] += 1;
            LOG[1] = self.id;
        }
        Memory { from: self.id }
    }
}

/// Contract of the arm: whatever the session state before (a search running or not, a memory collected from an
/// earlier search by `stop` / `position` / `go` or not), afterwards no search is running, the running search -- if any
/// -- was stopped and joined exactly once (not leaked), and NO search memory is left for the next `go`.  That is the
/// state of a freshly started process (`current_search = None`, `previous_artifact = None`; anchors checked by the
/// driver), so the next `Search::spawn(.., previous_artifact.take())` receives `None` and `analyze_iterative` builds a
/// fresh hasher, transposition table and position history.
#[kani::proof]
fn c18_ucinewgame_clears_search_memory() {
    let running: bool = kani::any();
    let collected: bool = kani::any();
    let id: u8 = kani::any();
    let search = if running { Some(RunningSearch { id }) } else { None };
    let memory = if collected { Some(Memory { from: kani::any() }) } else { None };
    let (search_after, memory_after) = ucinewgame_arm(search, memory);
    assert!(search_after.is_none(), "no search is running after ucinewgame");
    let (calls, who) = unsafe { (LOG[0], LOG[1]) };
    assert!(calls == running as u8, "a running search is stopped and joined exactly once");
    assert!(!running || who == id);
    assert!(memory_after.is_none(), "ucinewgame leaves no search memory from the previous game");
    kani::cover!(running && collected, "search running and memory already collected");
    kani::cover!(!running && collected, "memory collected by an earlier stop, nothing running");
    kani::cover!(running && !collected, "search running, nothing collected");
    kani::cover!(!running && !collected, "fresh session");
}
