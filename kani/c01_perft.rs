//! C01 (perft clause) -- the perft walk counts exactly the leaves of the legal-move tree.
//! Child module of `weechess_engine::searcher`.  The move generator is replaced by its contract: an oracle that, for a
//! position, lists its legal moves with their successors (here: n(position) children, n <= 2, identified through the
//! halfmove clock so that different nodes of the tree get different child counts).
use super::*;
use weechess_core::{Move, MoveGenerationBuffer, MoveResult, State};

static mut ORACLE: [u64; 4] = [0; 4]; // ORACLE[0]: two bits per node id = number of legal moves of that node (0..=2)
static mut CALLBACKS: [u64; 4] = [0; 4]; // 0: number of callback invocations, 1: sum of the counts handed to the callback

fn node_id(s: &State) -> u64 {
    (s.clock().halfmove_clock as u64) & 15
}
fn children_of(id: u64) -> u64 {
    let n = (unsafe { ORACLE[0] } >> (2 * id)) & 3;
    let cap = unsafe { ORACLE[1] }; // 1 or 2: the largest branching factor of this run
    if n >= cap {
        cap
    } else {
        n
    }
}
/// the j-th child of node id gets id 3*id + j + 1 (a ternary heap numbering: distinct nodes, depth <= 2 => id <= 12)
fn child_state(s: &State, j: u64) -> State {
    State::new(
        s.board().clone(),
        !s.turn_to_move(),
        weechess_core::utils::ArrayMap::new([s.castle_rights(weechess_core::Color::White), s.castle_rights(weechess_core::Color::Black)]),
        None,
        weechess_core::Clock { halfmove_clock: (3 * node_id(s) + j + 1) as usize, fullmove_number: 1 },
    )
}

/// contract of MoveGenerator::compute_legal_moves_into (C01 K1-K5): the buffer holds exactly the legal moves of the
/// position, each with its successor
fn stub_legal_moves_into(state: &State, buffer: &mut MoveGenerationBuffer) {
    buffer.clear();
    let n = children_of(node_id(state));
    let mut j = 0;
    while j < 2 {
        if j < n {
            buffer.legal_moves.push(MoveResult(Move::NULL, child_state(state, j)));
        }
        j += 1;
    }
}

fn stub_vec_push<T, A: std::alloc::Allocator>(v: &mut Vec<T, A>, value: T) {
    let len = v.len();
    assert!(len < v.capacity(), "the harness vector has spare capacity");
    unsafe {
        std::ptr::write(v.as_mut_ptr().add(len), value);
        v.set_len(len + 1);
    }
}

/// spec: number of leaves at exactly `depth` plies below node id (0 for depth 0, as `perft(state, 0)` creates no buffer)
fn spec_perft(id: u64, depth: u32) -> u64 {
    if depth == 0 {
        return 0;
    }
    let n = children_of(id);
    if depth == 1 {
        return n;
    }
    let mut total = 0;
    let mut j = 0;
    while j < 2 {
        if j < n {
            let c = 3 * id + j + 1;
            // depth 2: the children's own child counts
            total += children_of(c);
        }
        j += 1;
    }
    total
}

#[kani::proof]
#[kani::unwind(8)]
#[kani::stub(weechess_core::MoveGenerator::compute_legal_moves_into, stub_legal_moves_into)]
#[kani::stub(std::vec::Vec::push, stub_vec_push)]
fn c01_perft_counts_the_legal_tree() {
    perft_obligation(2, 2)
}

/// lighter variant for the quick tier: chains (at most one legal move per node) of depth <= 2
#[kani::proof]
#[kani::unwind(8)]
#[kani::stub(weechess_core::MoveGenerator::compute_legal_moves_into, stub_legal_moves_into)]
#[kani::stub(std::vec::Vec::push, stub_vec_push)]
fn c01_perft_chain() {
    perft_obligation(1, 2)
}

/// lighter variant for the quick tier: depth 1 with up to two legal moves (the leaf-counting branch)
#[kani::proof]
#[kani::unwind(8)]
#[kani::stub(weechess_core::MoveGenerator::compute_legal_moves_into, stub_legal_moves_into)]
#[kani::stub(std::vec::Vec::push, stub_vec_push)]
fn c01_perft_depth_one() {
    perft_obligation(2, 1)
}

fn perft_obligation(max_branching: u64, max_depth: u32) {
    unsafe {
        ORACLE = kani::any();
        ORACLE[1] = max_branching;
        CALLBACKS = [0; 4];
    }
    let mut p = [weechess_core::BitBoard::ZERO; 16];
    p[6] = weechess_core::BitBoard::new(1 << 4);
    p[14] = weechess_core::BitBoard::new(1 << 60);
    let root = State::new(
        weechess_core::Board::new(weechess_core::utils::ArrayMap::new(p)),
        weechess_core::Color::White,
        weechess_core::utils::ArrayMap::new([weechess_core::CastleRights::NONE, weechess_core::CastleRights::NONE]),
        None,
        weechess_core::Clock { halfmove_clock: 0, fullmove_number: 1 },
    );
    // the depth is concrete per harness: the recursion then bottoms out concretely (a symbolic number of buffers makes
    // CBMC unwind the recursion to the global bound at every level)
    let depth: u32 = max_depth;
    // the buffers perft() would create, with small capacity (the push model asserts it suffices)
    let mut buffers: Vec<MoveGenerationBuffer> = Vec::with_capacity(2);
    let mut d = 0;
    while d < 2 {
        if d < depth {
            buffers.push(MoveGenerationBuffer { legal_moves: Vec::with_capacity(2), psuedo_legal_moves: Vec::new() });
        }
        d += 1;
    }
    let mut count: usize = 0;
    let mut f = |_s: &State, _m: &Move, _depth: usize, c: usize| unsafe {
        CALLBACKS[0] += 1;
        CALLBACKS[1] += c as u64;
    };
    Searcher::perft_recursive(&root, 1, &mut buffers[..], &mut count, &mut f);
    assert!(count as u64 == spec_perft(0, depth));
    if depth == 2 {
        // the callback is told, for every root move, the size of the subtree below it
        let cb = unsafe { CALLBACKS };
        assert!(cb[0] == children_of(0) && cb[1] == spec_perft(0, 2));
    }
    kani::cover!(count as u64 == if max_depth == 2 { max_branching * max_branching } else { max_branching }, "full tree reachable");
    kani::cover!(count == 0, "empty tree reachable");
}
