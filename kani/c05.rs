//! C05 -- no-move positions score as mate or draw; others never as mate.
//! Child module of `weechess_engine::eval`.
use super::*;
use weechess_core::{Board, MoveResult, MoveSet, PseudoLegalMove};

/// (a) mate_in_ply over ALL usize plies: no overflow, at least the terminal threshold, never increasing with ply,
/// and its negation at most the negative threshold.
#[kani::proof]
fn c05_mate_in_ply_contract() {
    let ply: usize = kani::any();
    let m = Evaluation::mate_in_ply(ply);
    assert!(m >= Evaluation::POS_INF);
    assert!(m.is_terminal());
    assert!(-m <= Evaluation::NEG_INF && (-m).is_terminal());
    let later: usize = kani::any();
    kani::assume(later >= ply);
    assert!(Evaluation::mate_in_ply(later) <= m);
    assert!(Evaluation::mate_in_ply(0) > Evaluation::mate_in_ply(9) && Evaluation::mate_in_ply(10) == Evaluation::POS_INF);
    kani::cover!(ply > u32::MAX as usize, "huge ply reachable");
    kani::cover!(ply < 10 && later == ply + 1, "bonus range reachable");
}

#[kani::proof]
fn c05_is_terminal_contract() {
    let x: i32 = kani::any();
    let e = Evaluation::from(x);
    assert!(e.is_terminal() == (x <= -10000 || x >= 10000));
    assert!(!Evaluation::EVEN.is_terminal());
    kani::cover!(e.is_terminal(), "reachable");
}

// ---- (b) decision logic of Evaluator::evaluate against the move-generator contract -------------------------------
// The callees are replaced by their CONTRACTS (C01 / C10): an oracle that knows whether the position has a legal move.

static mut HAS_LEGAL_MOVE: bool = false;
// NOTE: an 8-byte `static mut u64` (or AtomicU64) in a harness makes Kani 0.68 report spurious __rust_dealloc
// failures for any live Vec (reproduced in isolation); a 32-byte array does not, so the oracle lives in one.
static mut ORACLE: [u64; 4] = [0; 4];

/// contract of MoveGenerator::compute_legal_moves + MoveSet::is_empty (C01): the generated set is empty exactly when
/// the position has no legal move.  (The set itself is never inspected by `evaluate`; returning a heap-allocated
/// non-empty Vec from a stub trips Kani's deallocation model, so emptiness is answered by the second stub.)
fn stub_compute_legal_moves(_state: &State) -> MoveSet {
    MoveSet::empty()
}

fn stub_is_empty(_set: &MoveSet) -> bool {
    !unsafe { HAS_LEGAL_MOVE }
}

/// the legality oracle on move values: deterministic, and false everywhere when the position has no legal move
fn oracle_accepts(mv: &Move) -> bool {
    unsafe { HAS_LEGAL_MOVE && (ORACLE[2] >> (mv.as_raw() % 64)) & 1 == 1 }
}

/// contract of PseudoLegalMove::try_as_legal_move (C01/K4): Some exactly for the legal moves
fn stub_try_as_legal_move(mv: PseudoLegalMove, state: &State) -> Option<MoveResult> {
    if oracle_accepts(&mv) {
        Some(MoveResult(*mv, state.clone()))
    } else {
        None
    }
}

// the pseudo-legal generator's contract (C01/K1-K3), for implementations of `evaluate` that go through it: up to three
// arbitrary move values; the harness assumes the oracle accepts one of them exactly when a legal move exists
static mut PSEUDO: [u32; 4] = [0; 4];

fn stub_pseudo_legal_into(_state: &State, result: &mut Vec<PseudoLegalMove>) {
    result.clear();
    let z = unsafe { PSEUDO };
    let mut i = 0;
    while i < 3 {
        if (i as u32) < z[3] {
            result.push(PseudoLegalMove::new(weechess_core::verif_c20::move_from_raw(z[i])));
        }
        i += 1;
    }
}

/// contract of Board::colored_attacks (C10): some set of squares; its geometry is C09/C10's business
fn stub_colored_attacks(_b: &Board, _c: Color) -> BitBoard {
    BitBoard::new(unsafe { ORACLE[0] })
}

fn stub_king_attacks(_s: weechess_core::Square) -> BitBoard {
    BitBoard::new(unsafe { ORACLE[1] })
}

fn abstract_term(_v: &StateVariation<'_>, _p: &Color, eval: &mut Evaluation, _stop: &mut bool) {
    // any magnitude that cannot overflow the i32 sum: a position with a legal move must get a NON-terminal score however
    // large the heuristic terms are (nine queens against a bare king are worth more than the mate threshold)
    let x: i32 = kani::any();
    kani::assume(x >= -1_000_000 && x <= 1_000_000);
    *eval = Evaluation(x);
}

const ABSTRACT_TERMS: &'static [(f32, EvaluationFunction)] =
    &[(1.0, abstract_term), (0.8, abstract_term), (1.0, abstract_term), (0.2, abstract_term)];

fn symbolic_state() -> (State, bool) {
    // placement: one king each on symbolic squares plus arbitrary other material is irrelevant to the decision logic
    // (the terms are abstract), so only the kings are placed; everything else about the position is in the oracle
    let wk: u8 = kani::any();
    let bk: u8 = kani::any();
    kani::assume(wk < 64 && bk < 64 && wk != bk);
    let mut p = [BitBoard::ZERO; 16];
    p[6] = BitBoard::new(1u64 << wk);
    p[14] = BitBoard::new(1u64 << bk);
    // plus up to one more piece of any kind for each side on any other square (material must not influence the
    // decision between mate, stalemate and "has a move")
    let (x, y): (u8, u8) = (kani::any(), kani::any());
    let (kx, ky): (u8, u8) = (kani::any(), kani::any());
    kani::assume(x < 64 && y < 64 && x != y && x != wk && x != bk && y != wk && y != bk);
    kani::assume(kx <= 5 && ky <= 5);
    if kx > 0 {
        p[kx as usize] = BitBoard::new(1u64 << x);
    }
    if ky > 0 {
        p[8 + ky as usize] = BitBoard::new(1u64 << y);
    }
    let turn = if kani::any() { Color::White } else { Color::Black };
    let state = State::new(
        Board::new(ArrayMap::new(p)),
        turn,
        ArrayMap::new([weechess_core::CastleRights::NONE, weechess_core::CastleRights::NONE]),
        None,
        weechess_core::Clock { halfmove_clock: 0, fullmove_number: 1 },
    );
    let king = if turn == Color::White { wk } else { bk };
    let in_check = unsafe { ORACLE[0] } & (1u64 << king) != 0;
    (state, in_check)
}

#[kani::proof]
#[kani::unwind(10)]
#[kani::stub(weechess_core::MoveGenerator::compute_legal_moves, stub_compute_legal_moves)]
#[kani::stub(weechess_core::MoveSet::is_empty, stub_is_empty)]
#[kani::stub(weechess_core::PseudoLegalMove::try_as_legal_move, stub_try_as_legal_move)]
#[kani::stub(weechess_core::MoveGenerator::compute_psuedo_legal_moves_into, stub_pseudo_legal_into)]
#[kani::stub(weechess_core::Board::colored_attacks, stub_colored_attacks)]
#[kani::stub(weechess_core::AttackGenerator::compute_king_attacks, stub_king_attacks)]
fn c05_evaluate_decision_logic() {
    unsafe {
        HAS_LEGAL_MOVE = kani::any();
        ORACLE = kani::any();
        kani::assume(ORACLE[1].count_ones() <= 8); // a king has at most eight neighbours
        PSEUDO = kani::any();
        kani::assume(PSEUDO[3] <= 3);
        let mut any_accepted = false;
        let mut i = 0;
        while i < 3 {
            kani::assume(weechess_core::verif_c20::valid_raw(PSEUDO[i]));
            if (i as u32) < PSEUDO[3] && oracle_accepts(&weechess_core::verif_c20::move_from_raw(PSEUDO[i])) {
                any_accepted = true;
            }
            i += 1;
        }
        // consistency of the callee contracts: a legal move exists exactly when the pseudo-legal list holds an accepted one
        kani::assume(any_accepted == HAS_LEGAL_MOVE);
    }
    let (state, in_check) = symbolic_state();
    let perspective = if kani::any() { Color::White } else { Color::Black };
    let depth: usize = kani::any();
    let evaluator = Evaluator { fns: ABSTRACT_TERMS };
    let e = evaluator.evaluate(&state, perspective, depth);
    let has_legal = unsafe { HAS_LEGAL_MOVE };
    if !has_legal && in_check {
        // checkmate: mate score for this ply, negative for the side to move, positive from the opponent's view
        if state.turn_to_move() == perspective {
            assert!(e == -Evaluation::mate_in_ply(depth));
        } else {
            assert!(e == Evaluation::mate_in_ply(depth));
        }
        assert!(e.is_terminal());
    } else if !has_legal {
        assert!(e == Evaluation::EVEN); // stalemate: exactly zero
    } else {
        assert!(!e.is_terminal()); // a position with a legal move never gets a terminal score (terms within range)
    }
    kani::cover!(!has_legal && in_check, "checkmate reachable");
    kani::cover!(!has_legal && !in_check, "stalemate reachable");
    kani::cover!(has_legal && in_check, "check with a legal move reachable");
}

#[kani::proof]
fn c05_default_terms_are_the_four_evaluators() {
    let d = Evaluator::default();
    assert!(d.fns.len() == 4 && EVALUATORS.len() == 4);
    assert!(std::ptr::eq(d.fns.as_ptr(), EVALUATORS.as_ptr()));
    assert!(d.fns[0].0 == 1.0 && d.fns[1].0 == 0.8 && d.fns[2].0 == 1.0 && d.fns[3].0 == 0.2);
    kani::cover!(true, "reachable");
}
