//! C02 -- applying a move yields the correct successor position.
//! Child module of `weechess_core::state`.
use super::*;
use crate::verif_spec::*;
use crate::{Board, Color, Move, Piece, Side, Square};

/// Precondition of `State::by_performing_move`: the move is consistent with the position (this is implied by
/// "legal move of a legal position"; it is weaker, so the contract is stronger than the property needs).
pub fn consistent(p: &[u64; 16], turn: Color, ep: Option<Square>, mv: &Move) -> bool {
    let o = sq_u8(mv.origin());
    let d = sq_u8(mv.destination());
    let us = color_u8(turn) * 8;
    let them = 8 - us;
    let kind = kind_u8(mv.piece());
    if mv.color() != turn || o == d {
        return false;
    }
    if code_at(p, o) != us + kind {
        return false;
    }
    let dcode = code_at(p, d);
    let dr = rank_of(d) - rank_of(o);
    let df = file_of(d) - file_of(o);
    match mv.promotion() {
        Some(k) => {
            if mv.piece() != Piece::Pawn || k == Piece::Pawn || k == Piece::King || rank_of(d) != last_rank(turn) {
                return false;
            }
        }
        None => {
            if mv.piece() == Piece::Pawn && rank_of(d) == last_rank(turn) {
                return false;
            }
        }
    }
    if mv.is_double_pawn() != (mv.piece() == Piece::Pawn && (dr == 2 || dr == -2)) {
        return false;
    }
    if mv.piece() == Piece::Pawn {
        // pawn geometry: one rank forward, or two from the pawn's home rank over an empty square
        let home = rank_of(o) == home_rank(turn) + fwd(turn);
        if !(dr == fwd(turn) || (dr == 2 * fwd(turn) && home)) {
            return false;
        }
    }
    if mv.is_double_pawn()
        && (df != 0 || dcode != 0 || mv.capture().is_some() || code_at(p, mk(file_of(o), rank_of(o) + fwd(turn))) != 0)
    {
        return false;
    }
    if mv.is_en_passant() {
        let victim = mk(file_of(d), rank_of(o));
        return mv.piece() == Piece::Pawn
            && mv.capture() == Some(Piece::Pawn)
            && mv.promotion().is_none()
            && mv.castle_side().is_none()
            && ep == Some(mv.destination())
            && dcode == 0
            && dr == fwd(turn)
            && (df == 1 || df == -1)
            && code_at(p, victim) == them + 1;
    }
    if let Some(side) = mv.castle_side() {
        let r = home_rank(turn);
        let (kd, rs, re) = if side == Side::King { (6, 7, 5) } else { (2, 0, 3) };
        return mv.piece() == Piece::King
            && mv.capture().is_none()
            && mv.promotion().is_none()
            && o == mk(4, r)
            && d == mk(kd, r)
            && dcode == 0
            && code_at(p, mk(rs, r)) == us + 4
            && code_at(p, mk(re, r)) == 0;
    }
    match mv.capture() {
        Some(k) => dcode == them + kind_u8(k),
        None => dcode == 0,
    }
}

/// Postcondition, placement part, in mailbox terms (from the property statement): the code on square t afterwards.
pub fn spec_code_after(p: &[u64; 16], turn: Color, mv: &Move, t: u8) -> u8 {
    let o = sq_u8(mv.origin());
    let d = sq_u8(mv.destination());
    let us = color_u8(turn) * 8;
    if t == o {
        return 0;
    }
    if t == d {
        return us + kind_u8(mv.promotion().unwrap_or(mv.piece()));
    }
    if mv.is_en_passant() && t == mk(file_of(d), rank_of(o)) {
        return 0; // the en-passant victim is removed
    }
    if let Some(side) = mv.castle_side() {
        let r = home_rank(turn);
        let (rs, re) = if side == Side::King { (7, 5) } else { (0, 3) };
        if t == mk(rs, r) {
            return 0;
        }
        if t == mk(re, r) {
            return us + 4; // the rook is relocated
        }
    }
    code_at(p, t)
}

pub fn corner(c: Color, side: Side) -> u8 {
    mk(if side == Side::King { 7 } else { 0 }, home_rank(c))
}

/// a held castling right implies king and rook at home (part of "legal position")
pub fn rights_wf(p: &[u64; 16], rights: &crate::utils::ArrayMap<Color, CastleRights>) -> bool {
    let mut ok = true;
    for c in [Color::White, Color::Black] {
        let us = color_u8(c) * 8;
        for side in [Side::King, Side::Queen] {
            if rights[c].for_side(side) {
                ok = ok && code_at(p, mk(4, home_rank(c))) == us + 6 && code_at(p, corner(c, side)) == us + 4;
            }
        }
    }
    ok
}

/// new right = old right, unless the king of that colour moved, or the move starts or ends on the rook's corner
pub fn spec_right_after(old: bool, c: Color, side: Side, turn: Color, mv: &Move) -> bool {
    let king_moved = turn == c && mv.piece() == Piece::King;
    let k = corner(c, side);
    old && !king_moved && sq_u8(mv.origin()) != k && sq_u8(mv.destination()) != k
}

#[derive(Clone, Copy, PartialEq, Eq)]
pub enum Class {
    Quiet,
    Capture,
    DoubleStep,
    EnPassant,
    Promotion,
    PromotionCapture,
    CastleKing,
    CastleQueen,
}

pub fn class_of(mv: &Move) -> Class {
    if mv.is_en_passant() {
        Class::EnPassant
    } else if mv.is_castle(Side::King) {
        Class::CastleKing
    } else if mv.is_castle(Side::Queen) {
        Class::CastleQueen
    } else if mv.is_promotion() && mv.is_capture() {
        Class::PromotionCapture
    } else if mv.is_promotion() {
        Class::Promotion
    } else if mv.is_capture() {
        Class::Capture
    } else if mv.is_double_pawn() {
        Class::DoubleStep
    } else {
        Class::Quiet
    }
}

/// One obligation: fully symbolic position (16 disjoint bitboards, side, rights, ep target, clocks), fully symbolic
/// move of the given class consistent with it, successor compared with the spec at a symbolic square.
fn step_obligation(class: Class) {
    let p = any_boards();
    let turn = any_color();
    let rights = any_rights();
    let ep = any_opt_square();
    let half: usize = kani::any();
    let full: usize = kani::any();
    kani::assume(half < usize::MAX && full < usize::MAX);
    let mv: Move = kani::any();
    kani::assume(class_of(&mv) == class);
    kani::assume(consistent(&p, turn, ep, &mv));
    kani::assume(rights_wf(&p, &rights));

    let state = State::new(board_from(&p), turn, rights.clone(), ep, Clock { halfmove_clock: half, fullmove_number: full });
    let result = State::by_performing_move(&state, &mv);
    assert!(result.is_ok());
    let next = result.unwrap();

    // placement at a symbolic square (covers all 64 squares at once)
    let q = boards_of(next.board());
    let t: u8 = kani::any();
    kani::assume(t < 64);
    assert!(boards_wf(&q));
    assert!(code_at(&q, t) == spec_code_after(&p, turn, &mv, t));
    // redundant occupancy fields of Board
    assert!(bb(next.board().occupancy()) == union_all(&q));
    assert!(bb(next.board().colored_occupancy(Color::White)) == union_color(&q, Color::White));
    assert!(bb(next.board().colored_occupancy(Color::Black)) == union_color(&q, Color::Black));
    // side to move
    assert!(next.turn_to_move() != turn);
    // castling rights
    for c in [Color::White, Color::Black] {
        assert!(next.castle_rights(c).kingside == spec_right_after(rights[c].kingside, c, Side::King, turn, &mv));
        assert!(next.castle_rights(c).queenside == spec_right_after(rights[c].queenside, c, Side::Queen, turn, &mv));
    }
    // en-passant target: the passed-over square exactly after a double step
    let o = sq_u8(mv.origin());
    let d = sq_u8(mv.destination());
    if class == Class::DoubleStep {
        assert!(next.en_passant_target() == Some(sq((o + d) / 2)));
    } else {
        assert!(next.en_passant_target().is_none());
    }
    // clocks
    let resets = mv.piece() == Piece::Pawn || mv.capture().is_some();
    assert!(next.clock().halfmove_clock == if resets { 0 } else { half + 1 });
    assert!(next.clock().fullmove_number == if turn == Color::Black { full + 1 } else { full });
    // frame: the argument is untouched
    assert!(boards_of(state.board()) == p && state.turn_to_move() == turn && state.en_passant_target() == ep);
    assert!(state.clock().halfmove_clock == half && state.clock().fullmove_number == full);
    kani::cover!(turn == Color::White, "white mover reachable");
    kani::cover!(turn == Color::Black, "black mover reachable");
}

#[kani::proof]
fn c02_step_quiet() {
    step_obligation(Class::Quiet)
}
#[kani::proof]
fn c02_step_capture() {
    step_obligation(Class::Capture)
}
#[kani::proof]
fn c02_step_double_step() {
    step_obligation(Class::DoubleStep)
}
#[kani::proof]
fn c02_step_en_passant() {
    step_obligation(Class::EnPassant)
}
#[kani::proof]
fn c02_step_promotion() {
    step_obligation(Class::Promotion)
}
#[kani::proof]
fn c02_step_promotion_capture() {
    step_obligation(Class::PromotionCapture)
}
#[kani::proof]
fn c02_step_castle_king() {
    step_obligation(Class::CastleKing)
}
#[kani::proof]
fn c02_step_castle_queen() {
    step_obligation(Class::CastleQueen)
}

// ---- selection by coordinates: State::by_performing_moves against the generator's contract -----------------------------

static mut LEGAL: [u32; 4] = [0; 4]; // three raw move values + how many of them the position's legal list holds

/// contract of MoveGenerator::compute_legal_moves (C01): the list of legal moves with their successors (up to three
/// arbitrary moves here; their successors are never read by by_performing_moves)
fn stub_compute_legal_moves(state: &State) -> crate::MoveSet {
    let z = unsafe { LEGAL };
    let mut v: Vec<crate::MoveResult> = Vec::with_capacity(3);
    let mut i = 0;
    while i < 3 {
        if (i as u32) < z[3] {
            v.push(crate::MoveResult(crate::moves::verif_c20::move_from_raw(z[i]), state.clone()));
        }
        i += 1;
    }
    crate::MoveSet::new(v)
}

fn stub_vec_push<T, A: std::alloc::Allocator>(v: &mut Vec<T, A>, value: T) {
    let len = v.len();
    assert!(len < v.capacity(), "the harness vector has spare capacity");
    unsafe {
        std::ptr::write(v.as_mut_ptr().add(len), value);
        v.set_len(len + 1);
    }
}

/// model of Vec::reserve inside `filter(..).collect()`: `collect` allocates room for four elements before it stores the first
/// and calls `reserve` only when the vector is full; with at most three legal moves that never happens, and the model
/// asserts it (Kani's symbolic execution of the real growth path -- finish_grow / realloc / memcpy, once per unrolled
/// iteration -- is what exhausted 12 GB here)
fn stub_vec_reserve<T, A: std::alloc::Allocator>(v: &mut Vec<T, A>, additional: usize) {
    assert!(v.capacity() - v.len() >= additional, "collect() never has to grow its vector for <= 3 matches");
}

static mut APPLIED: [u32; 8] = [0; 8]; // [number of by_performing_move calls, raw move of the last call, ..]

/// contract of State::by_performing_move used at the call site of by_performing_moves (the contract itself is what the
/// eight c02_step_* obligations prove): here only WHICH move is applied to WHICH position matters, so the stub records
/// the move, checks the position is the one handed in (identified by its clocks) and returns a successor tagged with
/// the move's raw value
fn stub_by_performing_move(state: &State, mv: &Move) -> Result<State, MovePerformError> {
    unsafe {
        APPLIED[0] += 1;
        APPLIED[1] = mv.as_raw();
    }
    assert!(state.clock().halfmove_clock == 3 && state.clock().fullmove_number == 7, "the move is applied to the position handed in");
    Ok(State::new(
        board_from(&[0u64; 16]),
        !state.turn_to_move(),
        crate::utils::ArrayMap::new([CastleRights::NONE, CastleRights::NONE]),
        None,
        Clock { halfmove_clock: 1000, fullmove_number: mv.as_raw() as usize },
    ))
}

/// One coordinate query against a legal list of up to three arbitrary moves: exactly one legal move matches => THAT
/// move (and no other) is applied, once, to the position handed in, and its successor is the result; none matches =>
/// UnknownMove; several match => AmbiguousMove; in both error cases nothing is applied (the position passed in is
/// borrowed immutably, so it is unchanged in every case).
#[kani::proof]
#[kani::unwind(8)]
#[kani::stub(crate::movegen::MoveGenerator::compute_legal_moves, stub_compute_legal_moves)]
#[kani::stub(crate::state::State::by_performing_move, stub_by_performing_move)]
#[kani::stub(std::vec::Vec::push, stub_vec_push)]
#[kani::stub(std::vec::Vec::reserve, stub_vec_reserve)]
fn c02_select_by_coordinates() {
    unsafe {
        LEGAL = kani::any();
        kani::assume(LEGAL[3] <= 3);
        kani::assume(crate::moves::verif_c20::valid_raw(LEGAL[0]) && crate::moves::verif_c20::valid_raw(LEGAL[1]) && crate::moves::verif_c20::valid_raw(LEGAL[2]));
    }
    let mut p = [0u64; 16];
    p[6] = bit(4);
    p[14] = bit(60);
    let turn = any_color();
    let state = State::new(board_from(&p), turn, any_rights(), None, Clock { halfmove_clock: 3, fullmove_number: 7 });
    let (o, d) = (any_square(), any_square());
    let mut q = MoveQuery::new();
    q.set_origin(o);
    q.set_destination(d);
    let promo = any_opt_kind();
    if let Some(k) = promo {
        q.set_promotion(k);
    }
    let z = unsafe { LEGAL };
    // which of the legal moves carry these coordinates (MoveQuery::test is under contract in C12)
    let mut hits = 0;
    let mut which = 0;
    let mut i = 0;
    while i < 3 {
        let m = crate::moves::verif_c20::move_from_raw(z[i]);
        if (i as u32) < z[3] && m.origin() == o && m.destination() == d && promo.map_or(true, |k| k == m.promotion().unwrap_or(m.piece())) {
            hits += 1;
            which = i;
        }
        i += 1;
    }
    let r = State::by_performing_moves(&state, &[q]);
    let (calls, applied) = unsafe { (APPLIED[0], APPLIED[1]) };
    if hits == 1 {
        assert!(calls == 1 && applied == z[which], "exactly the matching legal move is applied, once");
        match &r {
            Ok(a) => assert!(a.clock().halfmove_clock == 1000 && a.clock().fullmove_number == z[which] as usize, "the result is that move's successor"),
            Err(_) => assert!(false),
        }
    } else if hits == 0 {
        assert!(calls == 0 && r == Err(MovePerformError::UnknownMove));
    } else {
        assert!(calls == 0 && r == Err(MovePerformError::AmbiguousMove));
    }
    // the argument is untouched
    assert!(state.turn_to_move() == turn && state.clock().halfmove_clock == 3 && bb(state.board().occupancy()) == bit(4) | bit(60));
    kani::cover!(hits == 1 && which == 2, "unique match reachable");
    kani::cover!(hits == 0 && z[3] == 3, "no match reachable");
    kani::cover!(hits == 2, "ambiguous reachable");
}
