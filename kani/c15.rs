//! C15 -- the transposition bucket (Kani, fully symbolic 8 slots).  The sub-table routing is in c15_routing.rs.
//! Child module of `weechess_engine::searcher`.  The table over a Vec of any length is the Verus part.
use super::*;
use weechess_core::Move;

fn any_entry() -> TranspositionEntry {
    let k: u8 = kani::any();
    kani::assume(k < 3);
    TranspositionEntry {
        kind: match k {
            0 => EvaluationKind::Exact,
            1 => EvaluationKind::UpperBound,
            _ => EvaluationKind::LowerBound,
        },
        performed_move: kani::any::<Move>(),
        depth: kani::any(),
        max_depth: kani::any(),
        evaluation: Evaluation::from(kani::any::<i32>()),
    }
}

fn entry_eq(a: &TranspositionEntry, b: &TranspositionEntry) -> bool {
    a.kind == b.kind
        && a.performed_move == b.performed_move
        && a.depth == b.depth
        && a.max_depth == b.max_depth
        && a.evaluation == b.evaluation
}

fn opt_entry_eq(a: Option<&TranspositionEntry>, b: Option<&TranspositionEntry>) -> bool {
    match (a, b) {
        (None, None) => true,
        (Some(x), Some(y)) => entry_eq(x, y),
        _ => false,
    }
}

/// abstract view of a bucket: key -> entry (spec-level lookup, written independently of `find`)
fn view_get(b: &TranspositionBucket, key: Hash) -> Option<&TranspositionEntry> {
    let mut r = None;
    let mut i = 0;
    while i < 8 {
        if let Some((h, e)) = &b.entries[i] {
            if *h == key && r.is_none() {
                r = Some(e);
            }
        }
        i += 1;
    }
    r
}

fn occupied(b: &TranspositionBucket) -> usize {
    let mut n = 0;
    let mut i = 0;
    while i < 8 {
        if b.entries[i].is_some() {
            n += 1;
        }
        i += 1;
    }
    n
}

/// representation invariant: occupied slots form a prefix (there is no removal) and their keys are pairwise distinct
fn bucket_wf(b: &TranspositionBucket) -> bool {
    let mut ok = true;
    let mut i = 0;
    while i < 8 {
        let mut j = 0;
        while j < i {
            match (&b.entries[j], &b.entries[i]) {
                (Some((hj, _)), Some((hi, _))) => ok = ok && *hj != *hi,
                (None, Some(_)) => ok = false,
                _ => {}
            }
            j += 1;
        }
        i += 1;
    }
    ok
}

fn any_bucket() -> TranspositionBucket {
    let mut b = TranspositionBucket::empty();
    let mut i = 0;
    while i < 8 {
        if kani::any() {
            b.entries[i] = Some((kani::any(), any_entry()));
        }
        i += 1;
    }
    kani::assume(bucket_wf(&b));
    b
}

#[kani::proof]
#[kani::unwind(10)]
fn c15_bucket_empty_wf() {
    let b = TranspositionBucket::empty();
    let k: Hash = kani::any();
    assert!(bucket_wf(&b) && occupied(&b) == 0 && b.find(k).is_none());
    assert!(TranspositionBucket::BUCKET_SIZE == 8);
    kani::cover!(true, "reachable");
}

/// find(h) returns the entry stored under exactly h, or nothing
#[kani::proof]
#[kani::unwind(10)]
fn c15_bucket_find_contract() {
    let b = any_bucket();
    let h: Hash = kani::any();
    let r = b.find(h);
    assert!(opt_entry_eq(r, view_get(&b, h)));
    // never an entry stored under another key
    let i: usize = kani::any();
    kani::assume(i < 8);
    if let (Some(e), Some((hi, ei))) = (r, &b.entries[i]) {
        if std::ptr::eq(e, ei) {
            assert!(*hi == h);
        }
    }
    kani::cover!(r.is_some(), "hit reachable");
    kani::cover!(r.is_none() && occupied(&b) == 8, "miss on a full bucket reachable");
}

/// insert_or_replace: afterwards find(h) == e; every other key keeps its entry unless the result is Replaced, in
/// which case the bucket was full, h was absent and exactly one other key disappeared; Inserted <=> count + 1
#[kani::proof]
#[kani::unwind(10)]
fn c15_bucket_insert_contract() {
    let before = any_bucket();
    let mut b = before;
    let h: Hash = kani::any();
    let e = any_entry();
    let had = view_get(&before, h).is_some();
    let n0 = occupied(&before);
    let r = b.insert_or_replace(h, e);

    assert!(bucket_wf(&b));
    assert!(opt_entry_eq(b.find(h), Some(&e)));
    assert!(opt_entry_eq(view_get(&b, h), Some(&e)));
    let k: Hash = kani::any();
    kani::assume(k != h);
    let kept = opt_entry_eq(view_get(&b, k), view_get(&before, k));
    match r {
        TranspositionInsertionResult::Inserted => {
            assert!(r.inserted());
            assert!(!had && n0 < 8 && occupied(&b) == n0 + 1 && kept);
        }
        TranspositionInsertionResult::Swapped => {
            assert!(!r.inserted());
            assert!(had && occupied(&b) == n0 && kept);
        }
        TranspositionInsertionResult::Replaced => {
            assert!(!r.inserted());
            assert!(!had && n0 == 8 && occupied(&b) == 8);
            // exactly one other key disappeared: k is either kept or was present and is now gone
            assert!(kept || (view_get(&before, k).is_some() && view_get(&b, k).is_none()));
            // ... and at most one: a second key k2 that also changed must be the same key
            let k2: Hash = kani::any();
            kani::assume(k2 != h);
            let kept2 = opt_entry_eq(view_get(&b, k2), view_get(&before, k2));
            assert!(kept || kept2 || k == k2);
        }
    }
    // nothing appears out of nowhere
    assert!(view_get(&before, k).is_some() || view_get(&b, k).is_none());
    kani::cover!(matches!(r, TranspositionInsertionResult::Inserted), "Inserted reachable");
    kani::cover!(matches!(r, TranspositionInsertionResult::Swapped), "Swapped reachable");
    kani::cover!(matches!(r, TranspositionInsertionResult::Replaced) && !kept, "Replaced with a victim reachable");
}

// the routing layer (TranspositionTableAccess) is in c15_routing.rs
