//! C14 / C11 -- the FEN field parsers.  Child module of `weechess_core::notation::fen` (Board::try_parse,
//! ArrayMap<Color,CastleRights>::try_parse and PieceIndex::try_parse are private to that module).
use super::*;
use crate::verif_spec::*;

const ALPHABET: &[u8] = b"rnbqkpRNBQKP12345678/";

/// Board::try_parse, the cursor loop: on every string of at most `max` characters over the alphabet the FEN regex
/// admits for the placement group (letters, digits 1-8, '/') there is no panic and no arithmetic overflow of the u8
/// square cursor.  The loop `for c in s.chars()` is unrolled max+2 times, which covers it completely; the final
/// `Board::from(&map)` needs 65 unrollings of its own and is therefore cut off here (run with --no-unwinding-checks)
/// and proved total separately in c14_fen_board_from_map_total.
fn board_parser_cursor_loop(max: usize) {
    let mut bytes = [b'/'; 40];
    let n: usize = kani::any();
    kani::assume(n <= max && max <= 40);
    let mut i = 0;
    while i < max {
        let k: usize = kani::any();
        kani::assume(k < ALPHABET.len());
        bytes[i] = ALPHABET[k];
        i += 1;
    }
    kani::cover!(n == max, "full-length text constructed");
    kani::cover!(n == max && bytes[0] == b'8' && bytes[max - 1] == b'8', "digit flood constructed");
    // SAFETY (harness only): every byte is ASCII by construction
    let text = unsafe { std::str::from_utf8_unchecked(&bytes[..n]) };
    let _ = Board::try_parse(text);
}

#[kani::proof]
#[kani::unwind(42)]
fn c14_fen_board_parser_cursor_40() {
    board_parser_cursor_loop(40)
}

/// the tail of Board::try_parse: building the board from an arbitrary square->piece map is total
#[kani::proof]
#[kani::unwind(66)]
fn c14_fen_board_from_map_total() {
    let mut map = Board::empty_map();
    let s = any_square();
    let t = any_square();
    map[s] = any_piece_index();
    map[t] = any_piece_index();
    let b = Board::from(&map);
    assert!(b.piece_at(t) == Some(map[t]));
    kani::cover!(s != t, "two pieces reachable");
}

#[kani::proof]
#[kani::unwind(8)]
fn c14_fen_castle_field_total() {
    let mut bytes = [b'-'; 5];
    let n: usize = kani::any();
    kani::assume(n <= 5);
    let mut i = 0;
    while i < 5 {
        bytes[i] = kani::any();
        kani::assume(bytes[i] < 128);
        i += 1;
    }
    let text = std::str::from_utf8(&bytes[..n]).unwrap();
    let r = ArrayMap::<Color, CastleRights>::try_parse(text);
    kani::cover!(r.is_ok(), "accepted reachable");
    kani::cover!(r.is_err(), "rejected reachable");
}

#[kani::proof]
fn c14_fen_piece_letter_total() {
    let c: char = kani::any();
    let r = PieceIndex::try_parse(c);
    if let Ok(p) = r {
        assert!(p.some() && (p.0 & 7) >= 1 && (p.0 & 7) <= 6 && (p.0 >> 3) <= 1);
        let expect = "PNBRQK".as_bytes()[((p.0 & 7) - 1) as usize];
        let expect = if p.0 >> 3 == 0 { expect } else { expect.to_ascii_lowercase() };
        assert!(c == expect as char);
    }
    kani::cover!(r.is_ok(), "letter reachable");
    kani::cover!(r.is_err(), "non-letter reachable");
}
