//! C14 / C11 -- the FEN field parsers.  Child module of `weechess_core::notation::fen` (Board::try_parse,
//! ArrayMap<Color,CastleRights>::try_parse and PieceIndex::try_parse are private to that module).
use super::*;
use crate::verif_spec::*;

const ALPHABET: &[u8] = b"rnbqkpRNBQKP12345678/";

/// Board::try_parse is total on every string over the alphabet the FEN regex admits for the placement group
/// (letters, digits 1-8, '/'), up to `max` characters: no panic, no arithmetic overflow of the u8 square cursor.
fn board_parser_total(max: usize) {
    let mut bytes = [b'/'; 40];
    let n: usize = kani::any();
    kani::assume(n <= max && max <= 40);
    let mut i = 0;
    while i < max {
        let k: usize = kani::any();
        kani::assume(k < ALPHABET.len());
        bytes[i] = ALPHABET[k];
        i += 1;
    }
    let text = std::str::from_utf8(&bytes[..n]).unwrap();
    let r = Board::try_parse(text);
    kani::cover!(r.is_ok(), "accepted placement reachable");
    kani::cover!(r.is_err(), "rejected placement reachable");
}

/// the same with the digit-only strings that drive the cursor highest (this is where an unchecked u8 cursor overflows)
fn board_parser_digits(len: usize) {
    let mut bytes = [b'8'; 40];
    let mut i = 0;
    while i < len {
        let d: u8 = kani::any();
        kani::assume(d >= b'1' && d <= b'8');
        bytes[i] = d;
        i += 1;
    }
    let n: usize = kani::any();
    kani::assume(n <= len);
    let text = std::str::from_utf8(&bytes[..n]).unwrap();
    let r = Board::try_parse(text);
    kani::cover!(r.is_ok(), "accepted reachable");
}

#[kani::proof]
#[kani::unwind(66)]
fn c14_fen_board_parser_total_12() {
    board_parser_total(12)
}

#[kani::proof]
#[kani::unwind(66)]
fn c14_fen_board_parser_digits_40() {
    board_parser_digits(40)
}

#[kani::proof]
#[kani::unwind(8)]
fn c14_fen_castle_field_total() {
    let mut bytes = [b'-'; 5];
    let n: usize = kani::any();
    kani::assume(n <= 5);
    let mut i = 0;
    while i < 5 {
        bytes[i] = kani::any();
        kani::assume(bytes[i] < 128);
        i += 1;
    }
    let text = std::str::from_utf8(&bytes[..n]).unwrap();
    let r = ArrayMap::<Color, CastleRights>::try_parse(text);
    kani::cover!(r.is_ok(), "accepted reachable");
    kani::cover!(r.is_err(), "rejected reachable");
}

#[kani::proof]
fn c14_fen_piece_letter_total() {
    let c: char = kani::any();
    let r = PieceIndex::try_parse(c);
    if let Ok(p) = r {
        assert!(p.some() && (p.0 & 7) >= 1 && (p.0 & 7) <= 6 && (p.0 >> 3) <= 1);
        let expect = "PNBRQK".as_bytes()[((p.0 & 7) - 1) as usize];
        let expect = if p.0 >> 3 == 0 { expect } else { expect.to_ascii_lowercase() };
        assert!(c == expect as char);
    }
    kani::cover!(r.is_ok(), "letter reachable");
    kani::cover!(r.is_err(), "non-letter reachable");
}
