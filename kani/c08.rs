//! C08 -- the position hash depends on, and separates, everything rule-relevant.
//! Child module of `weechess_core::hasher`.
use super::*;
use crate::utils::ArrayMap;
use crate::verif_spec::*;
use crate::{CastleRights, Clock, Color, Piece, PieceIndex, Side, Square, State};

/// a hasher whose key tables are fully symbolic (no loop: one flat symbolic array reinterpreted as the nested map)
pub fn sym_hasher() -> ZobristHasher {
    fn m() -> ArrayMap<PieceIndex, u64> {
        ArrayMap::new(kani::any::<[u64; 16]>())
    }
    // 64 rows written out: no loop (so a small global unwind bound can be used) and no reinterpretation of bytes
    let piece: [ArrayMap<PieceIndex, u64>; 64] = [
        m(), m(), m(), m(), m(), m(), m(), m(), m(), m(), m(), m(), m(), m(), m(), m(),
        m(), m(), m(), m(), m(), m(), m(), m(), m(), m(), m(), m(), m(), m(), m(), m(),
        m(), m(), m(), m(), m(), m(), m(), m(), m(), m(), m(), m(), m(), m(), m(), m(),
        m(), m(), m(), m(), m(), m(), m(), m(), m(), m(), m(), m(), m(), m(), m(), m(),
    ];
    ZobristHasher {
        turn_hash: ArrayMap::new(kani::any()),
        piece_hash: ArrayMap::new(piece),
        castle_hash: ArrayMap::new([ArrayMap::new(kani::any()), ArrayMap::new(kani::any())]),
        en_passant_hash: ArrayMap::new(kani::any()),
    }
}

fn mk_state(p: &[u64; 16], turn: Color, rights: ArrayMap<Color, CastleRights>, ep: Option<Square>) -> State {
    State::new(
        board_from(p),
        turn,
        rights,
        ep,
        Clock { halfmove_clock: kani::any(), fullmove_number: kani::any() },
    )
}

fn rights_from(bits: u8) -> ArrayMap<Color, CastleRights> {
    ArrayMap::new([
        CastleRights { kingside: bits & 1 != 0, queenside: bits & 2 != 0 },
        CastleRights { kingside: bits & 4 != 0, queenside: bits & 8 != 0 },
    ])
}

/// spec: the non-placement part of the hash
fn spec_components(h: &ZobristHasher, turn: Color, rights: u8, ep: Option<Square>) -> u64 {
    let mut x = h.turn_hash[turn];
    if rights & 1 != 0 {
        x ^= h.castle_hash[Color::White][Side::King];
    }
    if rights & 2 != 0 {
        x ^= h.castle_hash[Color::White][Side::Queen];
    }
    if rights & 4 != 0 {
        x ^= h.castle_hash[Color::Black][Side::King];
    }
    if rights & 8 != 0 {
        x ^= h.castle_hash[Color::Black][Side::Queen];
    }
    if let Some(s) = ep {
        x ^= h.en_passant_hash[s.file()];
    }
    x
}

/// (1) On the empty board the hash is exactly: turn key ^ keys of the held castling rights ^ en-passant file key.
/// Fully symbolic keys, side, rights, ep target and clocks.
#[kani::proof]
#[kani::unwind(8)]
fn c08_components_formula() {
    let hasher = sym_hasher();
    let p = [0u64; 16];
    let turn = any_color();
    let rights: u8 = kani::any();
    kani::assume(rights < 16);
    let ep = any_opt_square();
    let s = mk_state(&p, turn, rights_from(rights), ep);
    // On the empty board no en-passant capture is available, and the property only asks that an AVAILABLE capture is
    // separated: the target's file key may be folded in (as the code does) or left out, but nothing else may happen.
    let h = hasher.hash(&s);
    assert!(h == spec_components(&hasher, turn, rights, ep) || h == spec_components(&hasher, turn, rights, None));
    // without a target the formula is exact
    let s0 = mk_state(&p, turn, rights_from(rights), None);
    assert!(hasher.hash(&s0) == spec_components(&hasher, turn, rights, None));
    kani::cover!(rights == 15 && ep.is_some(), "all components reachable");
}

/// (2) Placement.  For each of the twelve piece indexes (concrete per harness), fully symbolic key tables, and the base
/// positions {empty board, initial position}: putting a piece of that index on any symbolic empty square t changes
/// the hash by exactly the table cell K[t][index], whatever the other components and the clocks of the two positions;
/// and two pieces of the index on two symbolic squares contribute K[t1][index] ^ K[t2][index].
/// (The same statement for an ARBITRARY base position exhausted 12 GB in CBMC with symbolic and with constant key
/// tables, so it is not proved; the twelve inner loops of `hash` are independent of each other by inspection.)
const INITIAL: [u64; 16] = [
    0, 0xff00, 0x42, 0x24, 0x81, 0x08, 0x10, 0,
    0, 0x00ff_0000_0000_0000, 0x4200_0000_0000_0000, 0x2400_0000_0000_0000, 0x8100_0000_0000_0000,
    0x0800_0000_0000_0000, 0x1000_0000_0000_0000, 0,
];

fn placement_obligation(idx: usize) {
    let hasher = sym_hasher();
    let pi = PieceIndex(idx as u8);
    let turn = any_color();
    let rights: u8 = kani::any();
    kani::assume(rights < 16);
    let ep = any_opt_square();
    let comp = spec_components(&hasher, turn, rights, ep);
    // Squares are enumerated by a concrete loop rather than quantified symbolically: a symbolic index into the 64x16
    // key table exhausts CBMC's memory, a concrete index costs nothing.  All 64 squares (and, for pairs, the
    // neighbouring square) are covered for this piece index.
    let mut t: u8 = 0;
    while t < 64 {
        let mut q = [0u64; 16];
        q[idx] |= bit(t);
        let s2 = mk_state(&q, turn, rights_from(rights), ep);
        assert!(hasher.hash(&s2) == comp ^ hasher.piece_hash[sq(t)][pi]);
        // two pieces of this index; on top of the initial position when the square is one of its empty squares
        let t2 = (t + 9) % 64;
        let mut q2 = q;
        q2[idx] |= bit(t2);
        let s3 = mk_state(&q2, turn, rights_from(rights), ep);
        assert!(hasher.hash(&s3) == comp ^ hasher.piece_hash[sq(t)][pi] ^ hasher.piece_hash[sq(t2)][pi]);
        if t >= 16 && t < 48 {
            let mut q3 = INITIAL;
            q3[idx] |= bit(t);
            let s4 = mk_state(&INITIAL, turn, rights_from(rights), ep);
            let s5 = mk_state(&q3, turn, rights_from(rights), ep);
            assert!(hasher.hash(&s5) == hasher.hash(&s4) ^ hasher.piece_hash[sq(t)][pi]);
        }
        t += 1;
    }
    kani::cover!(turn == Color::Black && ep.is_some(), "reachable");
}

macro_rules! placement_harness {
    ($name:ident, $idx:expr) => {
        #[kani::proof]
        fn $name() {
            placement_obligation($idx)
        }
    };
}
placement_harness!(c08_placement_white_pawn, 1);
placement_harness!(c08_placement_white_knight, 2);
placement_harness!(c08_placement_white_bishop, 3);
placement_harness!(c08_placement_white_rook, 4);
placement_harness!(c08_placement_white_queen, 5);
placement_harness!(c08_placement_white_king, 6);
placement_harness!(c08_placement_black_pawn, 9);
placement_harness!(c08_placement_black_knight, 10);
placement_harness!(c08_placement_black_bishop, 11);
placement_harness!(c08_placement_black_rook, 12);
placement_harness!(c08_placement_black_queen, 13);
placement_harness!(c08_placement_black_king, 14);

/// (3) Dependence: same placement, side, rights and ep target => equal hash, whatever the clocks (a position with
/// one symbolic piece besides the kings; the hash function has no access path to the clock -- see (1), (2))
#[kani::proof]
#[kani::unwind(8)]
fn c08_clocks_do_not_matter() {
    let hasher = sym_hasher();
    let mut p = [0u64; 16];
    p[6] = bit(4);
    p[14] = bit(60);
    let turn = any_color();
    let rights: u8 = kani::any();
    kani::assume(rights < 16);
    let ep = any_opt_square();
    let s1 = mk_state(&p, turn, rights_from(rights), ep);
    let s2 = mk_state(&p, turn, rights_from(rights), ep);
    assert!(hasher.hash(&s1) == hasher.hash(&s2));
    kani::cover!(s1.clock().halfmove_clock != s2.clock().halfmove_clock, "different clocks reachable");
}

/// (4) Separation, property level: positions differing in exactly one castling right / in the side to move / in an
/// available en-passant capture hash differently unless a table key is zero or two keys coincide (the 2^-64 event)
#[kani::proof]
#[kani::unwind(8)]
fn c08_separates_castling_rights() {
    let hasher = sym_hasher();
    let mut p = [0u64; 16];
    p[6] = bit(4);
    p[14] = bit(60);
    let turn = any_color();
    let r1: u8 = kani::any();
    let which: u8 = kani::any();
    kani::assume(r1 < 16 && which < 4);
    let r2 = r1 ^ (1 << which);
    let s1 = mk_state(&p, turn, rights_from(r1), None);
    let s2 = mk_state(&p, turn, rights_from(r2), None);
    let c = if which < 2 { Color::White } else { Color::Black };
    let side = if which % 2 == 0 { Side::King } else { Side::Queen };
    let key = hasher.castle_hash[c][side];
    assert!(hasher.hash(&s1) ^ hasher.hash(&s2) == key);
    assert!(key == 0 || hasher.hash(&s1) != hasher.hash(&s2));
    kani::cover!(which == 3 && turn == Color::Black, "reachable");
}

/// en-passant, capture AVAILABLE: for every victim file v (one harness per file and colour, concrete placement: the
/// victim pawn has just double-stepped on file v, a pawn of the side to move stands next to it on every neighbouring
/// file that exists), symbolic rights and keys: the position with the en-passant target and the same position without
/// it differ by exactly the key of file v; two neighbouring victim files get different keys' worth of difference.
/// (Symbolic pawn files make the board bits symbolic, which is what exhausts CBMC's memory in `hash`.)
/// Where NO capture is available the property leaves the hash free to ignore the target; see c08_components_formula.
fn ep_scenario(turn: Color, v: i8) {
    let hasher = sym_hasher();
    let r5: i8 = if turn == Color::White { 4 } else { 3 };
    let mut p = [0u64; 16];
    p[6] = bit(4);
    p[14] = bit(60);
    // victim (of the side that just moved) on file v, capturers of the side to move on v-1 / v+1
    p[pidx(!turn, Piece::Pawn)] |= bit(mk(v, r5));
    if v > 0 {
        p[pidx(turn, Piece::Pawn)] |= bit(mk(v - 1, r5));
    }
    if v < 7 {
        p[pidx(turn, Piece::Pawn)] |= bit(mk(v + 1, r5));
    }
    let t = sq(mk(v, r5 + fwd(turn)));
    let rights: u8 = kani::any();
    kani::assume(rights < 16);
    let a = mk_state(&p, turn, rights_from(rights), Some(t));
    let none = mk_state(&p, turn, rights_from(rights), None);
    let k = hasher.en_passant_hash[t.file()];
    assert!(hasher.hash(&a) ^ hasher.hash(&none) == k, "an available en-passant capture on this file is hashed in by exactly the file's key");
    assert!(k == 0 || hasher.hash(&a) != hasher.hash(&none));
    // a second victim two files away (so that both captures are available at once): the two targets are separated
    let v2 = if v < 6 { v + 2 } else { v - 2 };
    let mut p2 = p;
    p2[pidx(!turn, Piece::Pawn)] |= bit(mk(v2, r5));
    let t2 = sq(mk(v2, r5 + fwd(turn)));
    let b1 = mk_state(&p2, turn, rights_from(rights), Some(t));
    let b2 = mk_state(&p2, turn, rights_from(rights), Some(t2));
    let k2 = hasher.en_passant_hash[t2.file()];
    assert!(hasher.hash(&b1) ^ hasher.hash(&b2) == k ^ k2);
    assert!(k == k2 || hasher.hash(&b1) != hasher.hash(&b2));
    kani::cover!(rights == 9, "reachable");
}

macro_rules! ep_harness {
    ($name:ident, $turn:expr, $v:expr) => {
        #[kani::proof]
        #[kani::unwind(8)]
        fn $name() {
            ep_scenario($turn, $v)
        }
    };
}
ep_harness!(c08_separates_en_passant_white_a, Color::White, 0);
ep_harness!(c08_separates_en_passant_white_b, Color::White, 1);
ep_harness!(c08_separates_en_passant_white_c, Color::White, 2);
ep_harness!(c08_separates_en_passant_white_d, Color::White, 3);
ep_harness!(c08_separates_en_passant_white_e, Color::White, 4);
ep_harness!(c08_separates_en_passant_white_f, Color::White, 5);
ep_harness!(c08_separates_en_passant_white_g, Color::White, 6);
ep_harness!(c08_separates_en_passant_white_h, Color::White, 7);
ep_harness!(c08_separates_en_passant_black_a, Color::Black, 0);
ep_harness!(c08_separates_en_passant_black_b, Color::Black, 1);
ep_harness!(c08_separates_en_passant_black_c, Color::Black, 2);
ep_harness!(c08_separates_en_passant_black_d, Color::Black, 3);
ep_harness!(c08_separates_en_passant_black_e, Color::Black, 4);
ep_harness!(c08_separates_en_passant_black_f, Color::Black, 5);
ep_harness!(c08_separates_en_passant_black_g, Color::Black, 6);
ep_harness!(c08_separates_en_passant_black_h, Color::Black, 7);

/// (2b) Placement formula for an ARBITRARY position with at most two pieces of each of the twelve piece indexes (fully
/// symbolic squares, fully symbolic key tables, per-loop unwinding bound 3 on the `iter_ones` loop of `hash`):
/// hash == components ^ XOR over the occupied squares t of K[t][piece index standing on t].
/// The spec enumerates the 64 squares concretely, so only the real function indexes the table symbolically.
#[kani::proof]
#[kani::unwind(66)]
fn c08_placement_formula_symbolic_2() {
    let hasher = sym_hasher();
    let p: [u64; 16] = kani::any();
    kani::assume(boards_wf_unrolled(&p));
    let mut i = 1;
    while i < 15 {
        kani::assume(p[i].count_ones() <= 2);
        i += 1;
    }
    let turn = any_color();
    let rights: u8 = kani::any();
    kani::assume(rights < 16);
    let s = mk_state(&p, turn, rights_from(rights), None);
    let mut want = spec_components(&hasher, turn, rights, None);
    let mut t: u8 = 0;
    while t < 64 {
        let c = code_at(&p, t);
        if c != 0 {
            want ^= hasher.piece_hash[sq(t)][PieceIndex(c)];
        }
        t += 1;
    }
    assert!(hasher.hash(&s) == want);
    kani::cover!(p[1].count_ones() == 2 && p[14].count_ones() == 1 && p[12].count_ones() == 2, "several pieces reachable");
}

#[kani::proof]
#[kani::unwind(8)]
fn c08_separates_side_to_move() {
    let hasher = sym_hasher();
    let mut p = [0u64; 16];
    p[6] = bit(4);
    p[14] = bit(60);
    let rights: u8 = kani::any();
    kani::assume(rights < 16);
    let turn = any_color();
    let ep = any_opt_square();
    let s1 = mk_state(&p, turn, rights_from(rights), ep);
    let s2 = mk_state(&p, !turn, rights_from(rights), ep);
    let kw = hasher.turn_hash[Color::White];
    let kb = hasher.turn_hash[Color::Black];
    assert!(kw == kb || hasher.hash(&s1) != hasher.hash(&s2));
    kani::cover!(turn == Color::Black, "reachable");
}

/// (5) `with(rng)` fills every cell of every table from its own `next_u64` draw (no cell shared, none constant):
/// with an RNG that returns 1, 2, 3, ... two different cells hold different non-zero values and exactly
/// 2 + 64*16 + 4 + 8 draws are made.
pub struct CountingRng {
    pub n: u64,
}

impl rand::RngCore for CountingRng {
    fn next_u32(&mut self) -> u32 {
        self.next_u64() as u32
    }
    fn next_u64(&mut self) -> u64 {
        self.n += 1;
        self.n
    }
    fn fill_bytes(&mut self, dest: &mut [u8]) {
        for b in dest.iter_mut() {
            *b = self.next_u64() as u8;
        }
    }
    fn try_fill_bytes(&mut self, dest: &mut [u8]) -> Result<(), rand::Error> {
        self.fill_bytes(dest);
        Ok(())
    }
}

fn cell(h: &ZobristHasher, i: usize) -> u64 {
    // flat numbering of all 1038 cells
    if i < 2 {
        h.turn_hash[if i == 0 { Color::White } else { Color::Black }]
    } else if i < 2 + 1024 {
        let j = i - 2;
        h.piece_hash[sq((j / 16) as u8)][PieceIndex((j % 16) as u8)]
    } else if i < 2 + 1024 + 4 {
        let j = i - 1026;
        h.castle_hash[if j / 2 == 0 { Color::White } else { Color::Black }][if j % 2 == 0 { Side::King } else { Side::Queen }]
    } else {
        h.en_passant_hash[crate::File::from_index(i - 1030).unwrap()]
    }
}

#[kani::proof]
fn c08_with_fills_every_cell() {
    let mut rng = CountingRng { n: 0 };
    let h = ZobristHasher::with(&mut rng);
    assert!(rng.n == 2 + 1024 + 4 + 8);
    let i: usize = kani::any();
    let j: usize = kani::any();
    kani::assume(i < 1038 && j < 1038 && i != j);
    assert!(cell(&h, i) != 0 && cell(&h, i) != cell(&h, j));
    kani::cover!(i == 1037 && j == 0, "reachable");
}

// ---- bounded stand-in (native, exhaustive over all one- and two-piece placements): the placement formula -----------
// The symbolic proof of "hash == XOR over pieces of K[square][piece] ^ components" for arbitrary boards is out of
// CBMC's reach (symbolic index into the 64x16 key table).  This runs the REAL hash natively, for key tables drawn by the
// real `with` from three seeds, over every (piece, square) and every pair of placements on different squares, plus
// the initial position, against the formula.

#[cfg(test)]
mod native {
    use super::*;
    use rand::SeedableRng;

    fn state_of(p: &[u64; 16], turn: Color, rights: u8, ep: Option<Square>) -> State {
        State::new(board_from(p), turn, rights_from(rights), ep, Clock { halfmove_clock: 17, fullmove_number: 42 })
    }

    #[test]
    fn c08_native_placement_exhaustive() {
        let mut count = 0u64;
        for seed in [0u64, 1, 0xdead_beef] {
            let h = ZobristHasher::with(&mut rand_chacha::ChaCha8Rng::seed_from_u64(seed));
            let pieces: [usize; 12] = [1, 2, 3, 4, 5, 6, 9, 10, 11, 12, 13, 14];
            for (turn, rights, ep) in [(Color::White, 0u8, None), (Color::Black, 15u8, Some(sq(20))), (Color::White, 6u8, Some(sq(43)))] {
                let comp = h.hash(&state_of(&[0u64; 16], turn, rights, ep));
                assert_eq!(comp, spec_components(&h, turn, rights, ep));
                for a in pieces {
                    for s in 0..64u8 {
                        let mut p = [0u64; 16];
                        p[a] |= bit(s);
                        let k1 = h.piece_hash[sq(s)][PieceIndex(a as u8)];
                        assert_eq!(h.hash(&state_of(&p, turn, rights, ep)), comp ^ k1, "one piece {} on {}", a, s);
                        count += 1;
                        for b in pieces {
                            for t in 0..64u8 {
                                if t == s {
                                    continue;
                                }
                                let mut q = p;
                                q[b] |= bit(t);
                                let k2 = h.piece_hash[sq(t)][PieceIndex(b as u8)];
                                assert_eq!(h.hash(&state_of(&q, turn, rights, ep)), comp ^ k1 ^ k2);
                                count += 1;
                            }
                        }
                    }
                }
                // a full board: the initial position
                let mut expect = comp;
                for a in pieces {
                    for s in 0..64u8 {
                        if INITIAL[a] & bit(s) != 0 {
                            expect ^= h.piece_hash[sq(s)][PieceIndex(a as u8)];
                        }
                    }
                }
                assert_eq!(h.hash(&state_of(&INITIAL, turn, rights, ep)), expect);
                count += 1;
            }
        }
        println!("NATIVE-COUNT {}", count);
    }
}
