//! Shared spec vocabulary for the Kani obligations (compiled only under cfg(kani); injected into
//! weechess_core as `crate::verif_spec`).  Written from the rules of chess and board geometry in
//! "mailbox" terms (square numbers, file/rank arithmetic), independent of the bitboard tricks of the
//! code under verification.
#![allow(dead_code)]

use crate::{BitBoard, Color, Piece, PieceIndex, Square};

// ---- type invariants that the u8 newtypes do not enforce ------------------------------------

pub fn any_square() -> Square {
    let s: u8 = kani::any();
    kani::assume(s < 64);
    Square::try_from(s).unwrap()
}

pub fn any_color() -> Color {
    if kani::any() {
        Color::White
    } else {
        Color::Black
    }
}

/// a real piece kind (Pawn..King)
pub fn any_kind() -> Piece {
    let p: u8 = kani::any();
    kani::assume(p >= 1 && p <= 6);
    Piece::try_from(p).unwrap()
}

pub fn any_opt_kind() -> Option<Piece> {
    if kani::any() {
        Some(any_kind())
    } else {
        None
    }
}

pub fn any_piece_index() -> PieceIndex {
    PieceIndex::new(any_color(), any_kind())
}

pub fn sq(i: u8) -> Square {
    Square::try_from(i).unwrap()
}

pub fn sq_u8(s: Square) -> u8 {
    s.into()
}

pub fn bb(b: BitBoard) -> u64 {
    b.into()
}

pub fn file_of(s: u8) -> i8 {
    (s % 8) as i8
}

pub fn rank_of(s: u8) -> i8 {
    (s / 8) as i8
}

pub fn on_board(f: i8, r: i8) -> bool {
    f >= 0 && f < 8 && r >= 0 && r < 8
}

pub fn mk(f: i8, r: i8) -> u8 {
    (r * 8 + f) as u8
}

pub fn kind_u8(p: Piece) -> u8 {
    p.into()
}

pub fn color_u8(c: Color) -> u8 {
    c.into()
}

/// index of (color, kind) in the 16-entry piece tables: color*8 + kind
pub fn pidx(c: Color, k: Piece) -> usize {
    (color_u8(c) as usize) * 8 + kind_u8(k) as usize
}

pub fn bit(s: u8) -> u64 {
    1u64 << s
}
