//! Shared spec vocabulary for the Kani obligations (compiled only under cfg(kani); injected into
//! weechess_core as `crate::verif_spec`).  Written from the rules of chess and board geometry in
//! "mailbox" terms (square numbers, file/rank arithmetic), independent of the bitboard tricks of the
//! code under verification.
#![allow(dead_code)]

use crate::{BitBoard, Color, Piece, PieceIndex, Square};

// ---- type invariants that the u8 newtypes do not enforce ------------------------------------

pub fn any_square() -> Square {
    let s: u8 = kani::any();
    kani::assume(s < 64);
    Square::try_from(s).unwrap()
}

pub fn any_color() -> Color {
    if kani::any() {
        Color::White
    } else {
        Color::Black
    }
}

/// a real piece kind (Pawn..King)
pub fn any_kind() -> Piece {
    let p: u8 = kani::any();
    kani::assume(p >= 1 && p <= 6);
    Piece::try_from(p).unwrap()
}

pub fn any_opt_kind() -> Option<Piece> {
    if kani::any() {
        Some(any_kind())
    } else {
        None
    }
}

pub fn any_piece_index() -> PieceIndex {
    PieceIndex::new(any_color(), any_kind())
}

pub fn sq(i: u8) -> Square {
    Square::try_from(i).unwrap()
}

pub fn sq_u8(s: Square) -> u8 {
    s.into()
}

pub fn bb(b: BitBoard) -> u64 {
    b.into()
}

pub fn file_of(s: u8) -> i8 {
    (s % 8) as i8
}

pub fn rank_of(s: u8) -> i8 {
    (s / 8) as i8
}

pub fn on_board(f: i8, r: i8) -> bool {
    f >= 0 && f < 8 && r >= 0 && r < 8
}

pub fn mk(f: i8, r: i8) -> u8 {
    (r * 8 + f) as u8
}

pub fn kind_u8(p: Piece) -> u8 {
    p.into()
}

pub fn color_u8(c: Color) -> u8 {
    c.into()
}

/// index of (color, kind) in the 16-entry piece tables: color*8 + kind
pub fn pidx(c: Color, k: Piece) -> usize {
    (color_u8(c) as usize) * 8 + kind_u8(k) as usize
}

pub fn bit(s: u8) -> u64 {
    1u64 << s
}

// ---- mailbox view of 16 piece bitboards ----------------------------------------------------------

/// 16 symbolic bitboards, pairwise disjoint, the four unused indexes (0, 7, 8, 15) empty
pub fn any_boards() -> [u64; 16] {
    let p: [u64; 16] = kani::any();
    kani::assume(boards_wf(&p));
    p
}

pub fn boards_wf(p: &[u64; 16]) -> bool {
    let mut acc: u64 = 0;
    let mut ok = p[0] == 0 && p[7] == 0 && p[8] == 0 && p[15] == 0;
    let mut i = 0;
    while i < 16 {
        ok = ok && (p[i] & acc) == 0;
        acc |= p[i];
        i += 1;
    }
    ok
}

pub fn boards_of(b: &crate::Board) -> [u64; 16] {
    let mut p = [0u64; 16];
    let mut i = 0;
    while i < 16 {
        p[i] = bb(b.piece_occupancy(PieceIndex(i as u8)));
        i += 1;
    }
    p
}

pub fn board_from(p: &[u64; 16]) -> crate::Board {
    // written out (no loop) so that harnesses with a small global unwind bound can use it
    let b = BitBoard::new;
    crate::Board::new(crate::utils::ArrayMap::new([
        b(p[0]), b(p[1]), b(p[2]), b(p[3]), b(p[4]), b(p[5]), b(p[6]), b(p[7]),
        b(p[8]), b(p[9]), b(p[10]), b(p[11]), b(p[12]), b(p[13]), b(p[14]), b(p[15]),
    ]))
}

/// loop-free version of boards_wf (for harnesses with a small global unwind bound)
pub fn boards_wf_unrolled(p: &[u64; 16]) -> bool {
    let u1 = p[1];
    let u2 = u1 | p[2];
    let u3 = u2 | p[3];
    let u4 = u3 | p[4];
    let u5 = u4 | p[5];
    let u6 = u5 | p[6];
    let u9 = u6 | p[9];
    let u10 = u9 | p[10];
    let u11 = u10 | p[11];
    let u12 = u11 | p[12];
    let u13 = u12 | p[13];
    p[0] == 0 && p[7] == 0 && p[8] == 0 && p[15] == 0
        && p[2] & u1 == 0 && p[3] & u2 == 0 && p[4] & u3 == 0 && p[5] & u4 == 0 && p[6] & u5 == 0
        && p[9] & u6 == 0 && p[10] & u9 == 0 && p[11] & u10 == 0 && p[12] & u11 == 0 && p[13] & u12 == 0
        && p[14] & u13 == 0
}

/// piece code standing on square t: 0 = empty, otherwise color*8 + kind
pub fn code_at(p: &[u64; 16], t: u8) -> u8 {
    let mut code = 0u8;
    let mut i = 0;
    while i < 16 {
        if (p[i] >> t) & 1 == 1 {
            code = i as u8;
        }
        i += 1;
    }
    code
}

pub fn union_all(p: &[u64; 16]) -> u64 {
    let mut acc = 0;
    let mut i = 0;
    while i < 16 {
        acc |= p[i];
        i += 1;
    }
    acc
}

pub fn union_color(p: &[u64; 16], c: Color) -> u64 {
    let base = color_u8(c) as usize * 8;
    let mut acc = 0;
    let mut i = 1;
    while i <= 6 {
        acc |= p[base + i];
        i += 1;
    }
    acc
}

pub fn any_rights() -> crate::utils::ArrayMap<Color, crate::CastleRights> {
    crate::utils::ArrayMap::new([
        crate::CastleRights { kingside: kani::any(), queenside: kani::any() },
        crate::CastleRights { kingside: kani::any(), queenside: kani::any() },
    ])
}

pub fn any_opt_square() -> Option<Square> {
    if kani::any() {
        Some(any_square())
    } else {
        None
    }
}

pub fn home_rank(c: Color) -> i8 {
    if c == Color::White {
        0
    } else {
        7
    }
}

pub fn last_rank(c: Color) -> i8 {
    7 - home_rank(c)
}

/// +1 for White, -1 for Black
pub fn fwd(c: Color) -> i8 {
    if c == Color::White {
        1
    } else {
        -1
    }
}
