//! C11 -- the FEN WRITER.  Child module of `weechess_core::notation::fen`.
//!
//! Symbolic execution of the writer through `core::fmt` (about 40 `write!` calls, each through `Arguments`, function-pointer
//! dispatch and `Formatter::pad`) did not finish in 90 minutes / 12 GB.  Here the whole BODY of
//! `<Fen as IntoNotation<State>>::into_notation` is extracted textually and verbatim on every run (driver: EXTRACTS kind
//! "fn_body") into `fen_writer_extracted.rs` as `fn fen_writer_body(value: &State, f: &mut Sink) -> fmt::Result`, and inside this
//! module `write!` is bound to a byte sink:
//!   * `write!(f, "<literal>")`  appends the literal;
//!   * `write!(f, "{}", x)`      appends `x` as its `Display` impl does -- for `i32` / `usize` that is std's decimal text
//!     (modelled here, trusted); for `PieceIndex` and `Square` it is the CONTRACT of the repository's `Display` impls
//!     (one letter PNBRQK, upper case for White; file letter + rank digit), each of which is proved through the real
//!     `core::fmt` by its own obligation (c11_piece_letter_display_contract, c11_square_text_roundtrip).
//!   * `ArrayMap::from(value.board())` is bound to the contract of that conversion (see `Mailbox` below).
//! What this drops, exactly: `core::fmt`'s `Formatter` (padding/width/precision flags, none of which the writer uses).  The
//! writer's control flow, loops, conditions and the order and arguments of every `write!` are the repository's text.
use super::*;
use crate::verif_spec::*;

pub struct Sink {
    pub b: [u8; 96],
    pub n: usize,
}

impl Sink {
    fn put(&mut self, c: u8) -> std::fmt::Result {
        if self.n >= 96 {
            return Err(std::fmt::Error);
        }
        self.b[self.n] = c;
        self.n += 1;
        Ok(())
    }
    fn put_str(&mut self, s: &str) -> std::fmt::Result {
        // index loop over a literal: the bound is a constant for the verifier (an iterator loop is unrolled to the global bound)
        let b = s.as_bytes();
        let mut i = 0;
        while i < b.len() {
            self.put(b[i])?;
            i += 1;
        }
        Ok(())
    }
}

pub trait Emit {
    fn emit(&self, f: &mut Sink) -> std::fmt::Result;
}

/// std's `Display` for the integers the writer prints.
/// * `i32` (the run length of empty squares, 1..=8 in every reachable state): one decimal digit for 0..=9 -- std's text for
///   those values; any other value is written as the byte 0xFF, which no canonical FEN contains, so a run counter that
///   leaves 0..=9 shows up as a mismatch.
/// * `usize` (the two clocks): std's decimal text `D(v)` is kept ABSTRACT -- one byte 0x80 | v for v < 128 stands for it in
///   the written line and in the spec alike, so the obligations say "the line is placement, side, castling, en passant,
///   D(halfmove), D(fullmove) with single spaces" for whatever std's `Display for usize` writes (assumed, std).  (A decimal
///   model with 64-bit divisions made the obligation exhaust 12 GB.)
impl Emit for i32 {
    fn emit(&self, f: &mut Sink) -> std::fmt::Result {
        if *self >= 0 && *self <= 9 {
            f.put(b'0' + *self as u8)
        } else {
            f.put(0xFF)
        }
    }
}

impl Emit for usize {
    fn emit(&self, f: &mut Sink) -> std::fmt::Result {
        f.put(0x80 | (*self as u8 & 0x7F))
    }
}

const LETTERS: &[u8; 16] = b"?PNBRQK??pnbrqk?";

/// contract of `Display for PieceIndex` (proved through core::fmt by c11_piece_letter_display_contract)
impl Emit for PieceIndex {
    fn emit(&self, f: &mut Sink) -> std::fmt::Result {
        f.put(LETTERS[(self.0 & 15) as usize])
    }
}

/// contract of `Display for Square` (proved through core::fmt by c11_square_text_roundtrip)
impl Emit for Square {
    fn emit(&self, f: &mut Sink) -> std::fmt::Result {
        let i = sq_u8(*self);
        f.put(b'a' + i % 8)?;
        f.put(b'1' + i / 8)
    }
}

/// The writer starts with `ArrayMap::from(value.board())`, the mailbox view of the position (`Board::piece_at` on all 64
/// squares: the loop pattern that exhausts CBMC's memory when it is inlined into a larger obligation).  Inside this module
/// the name `ArrayMap` is bound to the CONTRACT of that conversion -- at every square the piece index standing there --
/// which c11_mailbox_of_board_contract proves for the real `<ArrayMap<Square, PieceIndex> as From<&Board>>::from` on
/// fully symbolic positions.
pub struct Mailbox([PieceIndex; 64]);
impl std::ops::Index<Square> for Mailbox {
    type Output = PieceIndex;
    fn index(&self, s: Square) -> &PieceIndex {
        &self.0[sq_u8(s) as usize]
    }
}
pub struct ArrayMap;
impl ArrayMap {
    pub fn from(board: &Board) -> Mailbox {
        let p = boards_of(board);
        let mut m = [PieceIndex(0); 64];
        let mut t = 0u8;
        while t < 64 {
            m[t as usize] = PieceIndex(code_at(&p, t));
            t += 1;
        }
        Mailbox(m)
    }
}

macro_rules! write {
    ($f:expr, "{}", $x:expr) => {
        Emit::emit(&$x, $f)
    };
    ($f:expr, $lit:literal) => {
        $f.put_str($lit)
    };
}

include!("fen_writer_extracted.rs");

// ---- the real Display impl of PieceIndex against the contract used above ---------------------------------------------------

struct Buf {
    b: [u8; 8],
    n: usize,
}
impl std::fmt::Write for Buf {
    fn write_str(&mut self, s: &str) -> std::fmt::Result {
        for c in s.bytes() {
            if self.n >= 8 {
                return Err(std::fmt::Error);
            }
            self.b[self.n] = c;
            self.n += 1;
        }
        Ok(())
    }
}

/// `Display for PieceIndex` through the real core::fmt: exactly one byte, the letter of the kind, upper case for White
#[kani::proof]
#[kani::unwind(10)]
fn c11_piece_letter_display_contract() {
    let pi = any_piece_index();
    let mut out = Buf { b: [0; 8], n: 0 };
    assert!(std::fmt::Write::write_fmt(&mut out, format_args!("{}", pi)).is_ok());
    assert!(out.n == 1 && out.b[0] == LETTERS[pi.0 as usize]);
    kani::cover!(pi.0 == 14, "black king reachable");
    kani::cover!(pi.0 == 1, "white pawn reachable");
}

// ---- spec writer ---------------------------------------------------------------------------------------------------------------

fn put(out: &mut [u8; 96], n: &mut usize, s: &[u8]) {
    let mut i = 0;
    while i < s.len() {
        out[*n] = s[i];
        *n += 1;
        i += 1;
    }
}

fn spec_rank_text(codes: &[u8; 8], out: &mut [u8; 96], n: &mut usize) {
    let mut run = 0u8;
    let mut f = 0;
    while f < 8 {
        if codes[f] == 0 {
            run += 1;
        } else {
            if run > 0 {
                out[*n] = b'0' + run;
                *n += 1;
                run = 0;
            }
            out[*n] = LETTERS[codes[f] as usize];
            *n += 1;
        }
        f += 1;
    }
    if run > 0 {
        out[*n] = b'0' + run;
        *n += 1;
    }
}

fn spec_number(v: usize, out: &mut [u8; 96], n: &mut usize) {
    // D(v), abstract (see `impl Emit for usize`); v < 128 in the obligations
    out[*n] = 0x80 | (v as u8 & 0x7F);
    *n += 1;
}

fn spec_fields(turn: Color, bits: u8, ep: Option<Square>, half: usize, full: usize, e: &mut [u8; 96], n: &mut usize) {
    put(e, n, if turn == Color::White { b" w " } else { b" b " });
    if bits & 15 == 0 {
        put(e, n, b"-");
    } else {
        if bits & 1 != 0 {
            put(e, n, b"K");
        }
        if bits & 2 != 0 {
            put(e, n, b"Q");
        }
        if bits & 4 != 0 {
            put(e, n, b"k");
        }
        if bits & 8 != 0 {
            put(e, n, b"q");
        }
    }
    put(e, n, b" ");
    match ep {
        None => put(e, n, b"-"),
        Some(s) => {
            let i = sq_u8(s);
            put(e, n, &[b'a' + i % 8, b'1' + i / 8]);
        }
    }
    put(e, n, b" ");
    spec_number(half, e, n);
    put(e, n, b" ");
    spec_number(full, e, n);
}

fn rights_of(bits: u8) -> crate::utils::ArrayMap<Color, CastleRights> {
    crate::utils::ArrayMap::new([
        CastleRights { kingside: bits & 1 != 0, queenside: bits & 2 != 0 },
        CastleRights { kingside: bits & 4 != 0, queenside: bits & 8 != 0 },
    ])
}

fn compare(out: &Sink, e: &[u8; 96], n: usize) {
    assert!(out.n == n, "the written line has the canonical length");
    let k: usize = kani::any();
    kani::assume(k < 96);
    assert!(k >= n || out.b[k] == e[k], "the written line is the canonical line, byte for byte");
}

/// Non-placement fields: for every side, every one of the 16 castling sets, every en-passant target (or none) and the two
/// clocks (their decimal text abstract) the writer produces exactly the canonical text (placement fixed to the two kings).
#[kani::proof]
#[kani::unwind(66)]
fn c11_writer_fields_contract() {
    let turn = any_color();
    let bits: u8 = kani::any();
    kani::assume(bits < 16);
    let ep = any_opt_square();
    let half: usize = kani::any();
    let full: usize = kani::any();
    kani::assume(half < 128 && full < 128);
    let mut p = [0u64; 16];
    p[6] = bit(4);
    p[14] = bit(60);
    let state = State::new(board_from(&p), turn, rights_of(bits), ep, Clock { halfmove_clock: half, fullmove_number: full });
    let mut out = Sink { b: [0; 96], n: 0 };
    assert!(fen_writer_body(&state, &mut out).is_ok());
    let mut e = [0u8; 96];
    let mut n = 0usize;
    put(&mut e, &mut n, b"4k3/8/8/8/8/8/8/4K3");
    spec_fields(turn, bits, ep, half, full, &mut e, &mut n);
    compare(&out, &e, n);
    kani::cover!(bits == 15 && ep.is_some() && half > 99, "all fields present reachable");
    kani::cover!(bits == 0 && ep.is_none(), "dashes reachable");
}

fn any_rank_codes() -> [u8; 8] {
    let c: [u8; 8] = kani::any();
    let mut f = 0;
    while f < 8 {
        kani::assume(c[f] == 0 || (c[f] >= 1 && c[f] <= 6) || (c[f] >= 9 && c[f] <= 14));
        f += 1;
    }
    c
}

fn boards_with_rank(p: &mut [u64; 16], rank: u8, codes: &[u8; 8]) {
    let mut f = 0;
    while f < 8 {
        if codes[f] != 0 {
            p[codes[f] as usize] |= bit(rank * 8 + f as u8);
        }
        f += 1;
    }
}

/// Placement: ranks `lo..=hi` fully symbolic (every piece letter or empty on each square), the other ranks empty, the other
/// fields fixed: the writer produces the canonical placement text -- ranks 8 to 1, runs of empty squares merged into one
/// digit and NOT carried over a rank boundary, '/' between ranks -- followed by the canonical fields.
fn placement_obligation(lo: u8, hi: u8) {
    let mut p = [0u64; 16];
    let mut codes = [[0u8; 8]; 8];
    let mut r = lo;
    while r <= hi {
        codes[r as usize] = any_rank_codes();
        boards_with_rank(&mut p, r, &codes[r as usize]);
        r += 1;
    }
    let state = State::new(board_from(&p), Color::White, rights_of(0), None, Clock { halfmove_clock: 0, fullmove_number: 1 });
    let mut out = Sink { b: [0; 96], n: 0 };
    assert!(fen_writer_body(&state, &mut out).is_ok());
    let mut e = [0u8; 96];
    let mut n = 0usize;
    let mut r: i8 = 7;
    while r >= 0 {
        spec_rank_text(&codes[r as usize], &mut e, &mut n);
        if r != 0 {
            put(&mut e, &mut n, b"/");
        }
        r -= 1;
    }
    spec_fields(Color::White, 0, None, 0, 1, &mut e, &mut n);
    compare(&out, &e, n);
    kani::cover!(codes[lo as usize][0] != 0 && codes[lo as usize][7] != 0, "pieces on both edges reachable");
    kani::cover!(codes[hi as usize] == [0u8; 8], "empty rank reachable");
}

macro_rules! placement_harness {
    ($name:ident, $lo:expr, $hi:expr) => {
        #[kani::proof]
        #[kani::unwind(66)]
        fn $name() {
            placement_obligation($lo, $hi)
        }
    };
}
placement_harness!(c11_writer_placement_rank_1, 0, 0);
placement_harness!(c11_writer_placement_rank_2, 1, 1);
placement_harness!(c11_writer_placement_rank_3, 2, 2);
placement_harness!(c11_writer_placement_rank_4, 3, 3);
placement_harness!(c11_writer_placement_rank_5, 4, 4);
placement_harness!(c11_writer_placement_rank_6, 5, 5);
placement_harness!(c11_writer_placement_rank_7, 6, 6);
placement_harness!(c11_writer_placement_rank_8, 7, 7);
placement_harness!(c11_writer_placement_ranks_1_2, 0, 1);
placement_harness!(c11_writer_placement_ranks_4_5, 3, 4);
placement_harness!(c11_writer_placement_ranks_7_8, 6, 7);

// ---- the mailbox view the writer starts from ----------------------------------------------------------------------------------

/// `ArrayMap::<Square, PieceIndex>::from(&Board)`: at every square the piece index standing there (NONE = 0 on an empty
/// square); fully symbolic position, symbolic square
#[kani::proof]
#[kani::unwind(66)]
fn c11_mailbox_of_board_contract() {
    let p: [u64; 16] = kani::any();
    kani::assume(boards_wf_unrolled(&p));
    let board = board_from(&p);
    let m = crate::utils::ArrayMap::<Square, PieceIndex>::from(&board);
    let t = any_square();
    assert!(m[t].0 == code_at(&p, sq_u8(t)));
    kani::cover!(m[t].0 == 14, "black king reachable");
    kani::cover!(m[t].0 == 0, "empty square reachable");
}
