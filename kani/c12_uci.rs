//! C12 / C14 -- the UCI coordinate-move reader.  It is a closure inside `Client::exec`; its body is extracted
//! textually and verbatim on every run into `uci_extracted.rs` (driver/inject.py: extract_closure_body) and
//! wrapped as `fn uci_move_token(m: &&str) -> Option<MoveQuery>`.  Child module of `weechess_engine::uci`.
use super::*;

include!("uci_extracted.rs");

// ---- the `bestmove` line -------------------------------------------------------------------------------------------------
// The statement `println!("bestmove {}{}{}", ..)` of the writer thread is extracted verbatim (uci_bestmove_extracted.rs) as
// the body of `fn uci_print_bestmove(m: &Move)`.  The only substitution: inside this module `println!` is bound to a sink
// that appends the formatted text and a newline to a fixed buffer instead of the process's stdout.
static mut LINE: [u8; 64] = [0; 64];
static mut LINE_LEN: [usize; 4] = [0; 4];

struct LineSink;
impl std::fmt::Write for LineSink {
    fn write_str(&mut self, s: &str) -> std::fmt::Result {
        // index loop: for a literal the bound is a constant for the verifier
        let b = s.as_bytes();
        let mut i = 0;
        while i < b.len() {
            unsafe {
                if LINE_LEN[0] >= 64 {
                    return Err(std::fmt::Error);
                }
                LINE[LINE_LEN[0]] = b[i];
                LINE_LEN[0] += 1;
            }
            i += 1;
        }
        Ok(())
    }
}

pub fn emit_line(args: std::fmt::Arguments<'_>) {
    use std::fmt::Write;
    LineSink.write_fmt(args).unwrap();
    LineSink.write_str("\n").unwrap();
}

macro_rules! println {
    ($($t:tt)*) => { emit_line(format_args!($($t)*)) };
}

include!("uci_bestmove_extracted.rs");

// the argument parser of the `go` arm: the statements between `let mut search_time ..` and the book lookup, verbatim, as
// `fn uci_go_args(args: &[&str]) -> (Option<f64>, Option<usize>)` (its `println!` goes to the same sink)
include!("uci_go_args_extracted.rs");

fn sq_index(s: Square) -> u8 {
    s.into()
}

fn letter(p: Piece) -> u8 {
    match p {
        Piece::Queen => b'q',
        Piece::Rook => b'r',
        Piece::Bishop => b'b',
        Piece::Knight => b'n',
        Piece::King => b'k',
        Piece::Pawn => b'p',
        Piece::None => b' ',
    }
}

/// For every move value whose promotion (if any) is one of Q R B N: the coordinate text (as written by Lan -- its
/// contract is c12_lan_writer_contract) is read back as the query with exactly that origin, destination, promotion.
#[kani::proof]
#[kani::unwind(8)]
fn c12_uci_reader_inverts_lan() {
    let m: Move = kani::any();
    kani::assume(m.promotion() != Some(Piece::Pawn) && m.promotion() != Some(Piece::King));
    let o = sq_index(m.origin());
    let d = sq_index(m.destination());
    let mut buf = [0u8; 5];
    buf[0] = b'a' + o % 8;
    buf[1] = b'1' + o / 8;
    buf[2] = b'a' + d % 8;
    buf[3] = b'1' + d / 8;
    let n = match m.promotion() {
        Some(p) => {
            buf[4] = letter(p);
            5
        }
        None => 4,
    };
    let text = std::str::from_utf8(&buf[..n]).unwrap();
    let r = uci_move_token(&text);
    assert!(r.is_some());
    let q = r.unwrap();
    assert!(q.origin_file == Some(m.origin().file()) && q.origin_rank == Some(m.origin().rank()));
    assert!(q.dest_file == Some(m.destination().file()) && q.dest_rank == Some(m.destination().rank()));
    assert!(q.promotion == m.promotion());
    assert!(q.piece.is_none() && q.castle.is_none() && q.is_capture.is_none());
    assert!(q.test(&m));
    kani::cover!(m.promotion() == Some(Piece::Knight), "promotion reachable");
    kani::cover!(m.promotion().is_none(), "plain reachable");
}

#[kani::proof]
#[kani::unwind(18)]
fn c14_uci_token_total() {
    let mut buf = [0u8; 16];
    let text: &str = weechess_core::notation::verif_c12::any_text(&mut buf, 8);
    let r = uci_move_token(&text);
    if let Some(q) = r {
        assert!(q.origin_file.is_some() && q.dest_file.is_some());
    }
    kani::cover!(r.is_some(), "accepted token reachable");
    kani::cover!(r.is_none(), "rejected token reachable");
    kani::cover!(text.len() < 4, "short token reachable");
    kani::cover!(!text.is_ascii(), "non-ASCII token reachable");
}

/// The line the engine answers a `go` with names the move in coordinate notation: `bestmove ` + origin + destination +
/// lower-case promotion letter, newline -- for every move value.  Together with c12_uci_reader_inverts_lan the text selects
/// the same move again.
#[kani::proof]
#[kani::unwind(34)]
fn c12_uci_bestmove_line_contract() {
    let m: Move = kani::any();
    uci_print_bestmove(&m);
    let o = sq_index(m.origin());
    let d = sq_index(m.destination());
    let (line, n) = unsafe { (LINE, LINE_LEN[0]) };
    let head = b"bestmove ";
    let mut i = 0;
    while i < 9 {
        assert!(line[i] == head[i]);
        i += 1;
    }
    assert!(line[9] == b'a' + o % 8 && line[10] == b'1' + o / 8);
    assert!(line[11] == b'a' + d % 8 && line[12] == b'1' + d / 8);
    match m.promotion() {
        None => assert!(n == 14 && line[13] == b'\n'),
        Some(p) => {
            assert!(n == 15 && line[13] == letter(p) && line[14] == b'\n');
        }
    }
    kani::cover!(m.promotion() == Some(Piece::Knight), "promotion reachable");
    kani::cover!(m.promotion().is_none(), "plain reachable");
}

/// The `go` argument parser is total (no panic, no overflow) on up to three tokens -- a keyword or arbitrary two bytes, an
/// arbitrary value of up to two ASCII bytes (three exhausted 12 GB in std's from_str_radix), one more arbitrary byte -- and
/// understands `depth N` and `movetime N`.
#[kani::proof]
#[kani::unwind(40)]
fn c14_uci_go_args_total() {
    let mut b0 = [0u8; 4];
    let mut b1 = [0u8; 4];
    let mut b2 = [0u8; 4];
    let mut i = 0;
    while i < 3 {
        let c: u8 = kani::any();
        kani::assume(c < 128);
        b0[i] = c;
        let c: u8 = kani::any();
        kani::assume(c < 128);
        b1[i] = c;
        let c: u8 = kani::any();
        kani::assume(c < 128);
        b2[i] = c;
        i += 1;
    }
    let which: u8 = kani::any();
    let t0: &str = match which {
        0 => "depth",
        1 => "movetime",
        _ => std::str::from_utf8(&b0[..2]).unwrap(),
    };
    let n1: usize = kani::any();
    kani::assume(n1 <= 2);
    let t1 = std::str::from_utf8(&b1[..n1]).unwrap();
    let t2 = std::str::from_utf8(&b2[..1]).unwrap();
    let count: usize = kani::any();
    kani::assume(count <= 3);
    let all = [t0, t1, t2];
    let (time, depth) = uci_go_args(&all[..count]);
    // a well-formed `depth N` / `movetime N` (N of 1..=3 decimal digits) sets exactly that limit
    let digits = n1 >= 1 && b1[0].is_ascii_digit() && (n1 < 2 || b1[1].is_ascii_digit()) && (n1 < 3 || b1[2].is_ascii_digit());
    if count == 2 && digits {
        let mut v: usize = 0;
        let mut k = 0;
        while k < 3 {
            if k < n1 {
                v = v * 10 + (b1[k] - b'0') as usize;
            }
            k += 1;
        }
        if which == 0 {
            assert!(depth == Some(v) && time.is_none());
        }
        if which == 1 {
            // (the value is movetime / 1000.0 in f64; a second symbolic float division in the spec doubles the cost of the
            // obligation, which is about totality: the limit is set, and only that one)
            assert!(depth.is_none() && time.is_some());
        }
    }
    if count == 0 {
        assert!(time.is_none() && depth.is_none());
    }
    kani::cover!(which == 0 && count == 2 && digits, "depth limit reachable");
    kani::cover!(which == 1 && count == 2 && digits, "movetime reachable");
    kani::cover!(which > 1 && count == 3, "garbage reachable");
}
