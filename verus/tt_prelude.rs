use vstd::prelude::*;
verus! {

global size_of usize == 8;

pub type Hash = u64;

// ---------------- trusted prelude: the two bucket-level types, abstract -------------------------
#[verifier::external_body]
#[verifier::accept_recursive_types]
pub struct TranspositionEntry { _p: u8 }

#[verifier::external_body]
pub struct TranspositionBucket { _p: u8 }

impl TranspositionBucket {
    pub const BUCKET_SIZE: usize = 8;

    /// abstract view: the map key -> entry held by the occupied slots
    pub uninterp spec fn view(&self) -> Map<Hash, TranspositionEntry>;
    /// number of occupied slots
    pub uninterp spec fn occupied(&self) -> nat;

    pub open spec fn wf(&self) -> bool {
        &&& self.occupied() <= 8
        &&& self@.dom().len() == self.occupied()
    }

    #[verifier::external_body]
    fn find(&self, hash: Hash) -> (r: Option<&TranspositionEntry>)
        requires self.wf(),
        ensures
            match r {
                Some(e) => self@.contains_key(hash) && self@[hash] == *e,
                None => !self@.contains_key(hash),
            },
    { unimplemented!() }

    #[verifier::external_body]
    fn insert_or_replace(&mut self, hash: Hash, entry: TranspositionEntry) -> (r: TranspositionInsertionResult)
        requires old(self).wf(),
        ensures
            final(self).wf(),
            final(self)@.contains_key(hash) && final(self)@[hash] == entry,
            (r is Inserted) ==> !old(self)@.contains_key(hash) && final(self).occupied() == old(self).occupied() + 1
                && final(self)@ == old(self)@.insert(hash, entry),
            (r is Swapped) ==> old(self)@.contains_key(hash) && final(self).occupied() == old(self).occupied()
                && final(self)@ == old(self)@.insert(hash, entry),
            (r is Replaced) ==> !old(self)@.contains_key(hash) && old(self).occupied() == 8 && final(self).occupied() == 8
                && exists|victim: Hash| old(self)@.contains_key(victim) && final(self)@ == old(self)@.remove(victim).insert(hash, entry),
    { unimplemented!() }
}

