// Contracts for the table-level functions of weechess-engine/src/searcher.rs.
// This file holds ONLY specification text.  The driver (driver/verus_run.py) builds the file Verus checks:
//
//   tt_prelude.rs                      trusted: abstract TranspositionEntry / TranspositionBucket whose two method
//                                      specs are the bucket contract that Kani proves on the real bucket code
//   //@ITEM <header>                   the item is copied VERBATIM from searcher.rs (brace matched)
//   //@FN <scope> :: <fn>              the real signature (its return type given a name, `-> (r: T)`), then the
//                                      clauses between this marker and //@BODY, then `{`, the optional ghost
//                                      //@PROLOGUE lines, the real body VERBATIM, the optional ghost //@EPILOGUE
//                                      lines, `}`
//   everything else                    copied as is (spec functions, lemmas, canaries)
//
// What the extraction drops: with_bucket_count / with_memory (vec! of an external type), the derive attributes of the
// two bucket-level types (they are abstract here), everything else in searcher.rs.

//@ITEM enum TranspositionInsertionResult

//@IMPL impl TranspositionInsertionResult
//@FN impl TranspositionInsertionResult :: inserted
        ensures r == (self is Inserted),
//@BODY
//@ENDIMPL

//@ITEM struct TranspositionTable

pub open spec fn sum_occ(s: Seq<TranspositionBucket>) -> nat
    decreases s.len(),
{
    if s.len() == 0 { 0 } else { sum_occ(s.drop_last()) + s.last().occupied() }
}

proof fn lemma_sum_bound(s: Seq<TranspositionBucket>)
    requires forall|i: int| 0 <= i < s.len() ==> (#[trigger] s[i]).occupied() <= 8,
    ensures sum_occ(s) <= 8 * s.len(),
    decreases s.len(),
{
    if s.len() > 0 {
        lemma_sum_bound(s.drop_last());
    }
}

proof fn lemma_sum_update(s: Seq<TranspositionBucket>, i: int, b: TranspositionBucket)
    requires 0 <= i < s.len(),
    ensures sum_occ(s.update(i, b)) + s[i].occupied() == sum_occ(s) + b.occupied(),
    decreases s.len(),
{
    let t = s.update(i, b);
    if i == s.len() - 1 {
        assert(t.drop_last() =~= s.drop_last());
    } else {
        assert(t.drop_last() =~= s.drop_last().update(i, b));
        lemma_sum_update(s.drop_last(), i, b);
    }
}

/// a bucket with a free slot keeps the sum strictly below capacity (used for `used_slots += 1` not overflowing)
proof fn lemma_sum_strict(s: Seq<TranspositionBucket>, i: int)
    requires
        forall|j: int| 0 <= j < s.len() ==> (#[trigger] s[j]).occupied() <= 8,
        0 <= i < s.len(),
        s[i].occupied() < 8,
    ensures sum_occ(s) < 8 * s.len(),
    decreases s.len(),
{
    if i == s.len() - 1 {
        lemma_sum_bound(s.drop_last());
    } else {
        lemma_sum_strict(s.drop_last(), i);
    }
}

//@IMPL impl TranspositionTable
    /// representation invariant: at least one bucket, capacity fits the machine word, every bucket well formed,
    /// and the counter equals the number of occupied slots
    spec fn wf(&self) -> bool {
        &&& self.buckets.len() > 0
        &&& self.buckets.len() * 8 <= usize::MAX
        &&& forall|i: int| 0 <= i < self.buckets.len() ==> (#[trigger] self.buckets[i]).wf()
        &&& self.used_slots == sum_occ(self.buckets@)
    }

    spec fn slot_of(&self, hash: Hash) -> int {
        (hash as usize % self.buckets.len()) as int
    }

    /// abstract view: what a lookup of `hash` can see -- the entry stored under exactly `hash` in the one bucket
    /// the key routes to, or nothing
    spec fn get(&self, hash: Hash) -> Option<TranspositionEntry> {
        let b = self.buckets[self.slot_of(hash)];
        if b@.contains_key(hash) { Some(b@[hash]) } else { None }
    }

//@FN impl TranspositionTable :: find
        requires self.wf(),
        ensures
            match r { Some(e) => self.get(hash) == Some(*e), None => self.get(hash) is None },
//@BODY

//@FN impl TranspositionTable :: insert
        requires old(self).wf(),
        ensures
            final(self).wf(),
            final(self).buckets.len() == old(self).buckets.len(),
            // the most recent entry stored under exactly that key is what a lookup returns
            final(self).get(hash) == Some(entry),
            // frame: every other bucket is untouched
            forall|i: int| 0 <= i < old(self).buckets.len() && i != old(self).slot_of(hash)
                ==> final(self).buckets[i] == old(self).buckets[i],
            // every other key keeps its entry unless it is displaced from the FULL bucket the new key routes to
            forall|k: Hash| k != hash && old(self).get(k) is Some && final(self).get(k) != old(self).get(k)
                ==> old(self).slot_of(k) == old(self).slot_of(hash)
                    && old(self).buckets[old(self).slot_of(hash)].occupied() == 8
                    && old(self).get(hash) is None,
            // no key appears out of nowhere
            forall|k: Hash| k != hash && old(self).get(k) is None ==> final(self).get(k) is None,
//@PROLOGUE
        let ghost slot = self.slot_of(hash);
        let ghost pre = self.buckets@;
        proof {
            lemma_sum_bound(pre);
            if pre[slot].occupied() < 8 {
                lemma_sum_strict(pre, slot);
            }
        }
//@BODY
//@EPILOGUE
        proof {
            lemma_sum_update(pre, slot, self.buckets[slot]);
            assert(self.buckets@ =~= pre.update(slot, self.buckets[slot]));
        }
//@END

//@FN impl TranspositionTable :: entries
        requires self.wf(),
        ensures r == sum_occ(self.buckets@), r <= 8 * self.buckets.len(),
//@PROLOGUE
        proof { lemma_sum_bound(self.buckets@); }
//@BODY

//@FN impl TranspositionTable :: max_entries
        requires self.wf(),
        ensures r == 8 * self.buckets.len(),
//@BODY
//@ENDIMPL

// ---- vacuity canaries: each MUST FAIL (the driver requires exactly these to fail) -----------------------------
proof fn canary_table_wf(t: TranspositionTable)
    requires t.wf(),
    ensures false,
{
}

proof fn canary_bucket_wf(b: TranspositionBucket, h: Hash)
    requires b.wf(), b@.contains_key(h), b.occupied() == 8,
    ensures false,
{
}

proof fn canary_get_some(t: TranspositionTable, h: Hash, k: Hash)
    requires t.wf(), t.get(h) is Some, t.get(k) is None, k != h,
    ensures false,
{
}
