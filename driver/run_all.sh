#!/bin/sh
# run the quick tier of the given properties one after the other; print one status line each
cd "$(dirname "$0")/.."
for p in "$@"; do
  t0=$(date +%s)
  ./check $p --tier quick > /var/tmp/run_$p.log 2>&1
  rc=$?
  echo "$p rc=$rc wall=$(( $(date +%s) - t0 ))s $(grep -c discharged /var/tmp/run_$p.log) discharged"
done
