#!/bin/sh
cd "$(dirname "$0")/.."
for p in "$@"; do
  t0=$(date +%s)
  ./check $p --tier thorough > /var/tmp/runT_$p.log 2>&1
  rc=$?
  echo "$p rc=$rc wall=$(( $(date +%s) - t0 ))s $(grep -c discharged /var/tmp/runT_$p.log) discharged"
done
