#!/usr/bin/env python3
"""Regenerate /verif/MANIFEST.json from driver/props.py (single source of truth)."""
import json
import os
import sys

HERE = os.path.dirname(os.path.abspath(__file__))
sys.path.insert(0, HERE)
import props  # noqa: E402

NA = props.NOT_APPLICABLE
checks = []
for pid in sorted(props.PROPS):
    P = props.PROPS[pid]
    checks.append({
        "property_id": pid,
        "quick_cmd": "./check %s --tier quick" % pid,
        "thorough_cmd": "./check %s --tier thorough" % pid,
        "evidence_file": "/verif/evidence/%s.json" % pid,
        "replay_cmd_template": "./check replay {path}",
        "engine": "kani+verus" if any(o.get("backend") == "verus" for o in P["obligations"]) else "kani",
        "level_claimed": {"category": "proof", "text": P["level_text"], "design_ref": P.get("design_ref", "DESIGN.md section 4")},
        "level_note": P["level_note"],
        "technique": P["technique"],
    })
claimed = set(props.PROPS)
na = [{"property_id": k, "reason": v} for k, v in sorted(NA.items()) if k not in claimed]
m = {
    "version": 1,
    "setup_cmd": "./check list > /dev/null",
    "hooks": {
        "guard": "cfg(kani) -- set only by the Kani compiler. /repo carries no hook commits: contract attributes and "
                 "`#[cfg(kani)] #[path] mod` lines are injected add-only into a scratch copy of /repo's working tree on "
                 "every run (driver/inject.py; the run fails unless the diff against /repo consists of insertions only)",
        "enable": "cargo kani (passes --cfg kani); normal cargo build/test never sees the annotations",
        "baseline_off_cmd": "cd /repo && cargo test --workspace --no-fail-fast --offline",
        "source_commits": [],
        "add_only": True,
    },
    "engines": [
        {"name": "kani", "path": "/verif/kani", "serves_properties": sorted(claimed),
         "kind_free_text": "Kani 0.68 / CBMC 6.11: pre/post obligations on the real functions over fully symbolic inputs"},
        {"name": "verus", "path": "/verif/verus", "serves_properties": [p for p in sorted(claimed) if any(o.get("backend") == "verus" for o in props.PROPS[p]["obligations"])],
         "kind_free_text": "Verus 0.2026.09.13: verbatim function bodies spliced under contracts, unbounded Vec"},
    ],
    "checks": checks,
    "not_applicable": na,
    "notes": "Contract-based deductive verification of the real code. Exit 2 (never a VIOLATION line) means undecided: "
             "timeout, memory cap, unwinding assertion, lost anchor. See DESIGN.md.",
}
with open(os.path.join(os.path.dirname(HERE), "MANIFEST.json"), "w") as f:
    json.dump(m, f, indent=1)
print("MANIFEST.json: %d checks, %d not applicable" % (len(checks), len(na)))
