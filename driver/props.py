"""Per-property configuration: harness groups, injected contracts, obligations."""

CORE = "weechess_core"
ENGINE = "weechess_engine"

TRUSTED_BASE = [
    "rustc nightly + Kani 0.68 compiler, CBMC 6.11 and its SAT back end (CaDiCaL); Verus 0.2026.09.13 + Z3",
    "Kani's models of std (Vec, OnceCell, core::fmt, atomics executed sequentially)",
    "the add-only annotation injector (re-checked every run by a diff that must contain insertions only)",
    "the spec functions in /verif/kani/spec.rs as the statement of board geometry and of the rules",
    "absence of unsafe code in the three crates (scanned every run, count reported)",
]

# ------------------------------------------------------------------------------------------------
# harness groups: a harness file is compiled as a cfg(kani) child module of the module that owns the
# (often private) functions it puts under contract
# ------------------------------------------------------------------------------------------------
GROUPS = {
    "spec": dict(file="spec.rs", into="weechess-core/src/lib.rs", scope=None, mod="verif_spec", pub=True,
                 modpath="verif_spec", crate=CORE),
    "c20": dict(file="c20.rs", into="weechess-core/src/moves.rs", scope=None, mod="verif_c20", pub=True,
                modpath="moves::verif_c20", crate=CORE),
    "c02": dict(file="c02.rs", into="weechess-core/src/state.rs", scope=None, mod="verif_c02", pub=True,
                modpath="state::verif_c02", crate=CORE),
    "c15": dict(file="c15.rs", into="weechess-engine/src/searcher.rs", scope=None, mod="verif_c15", pub=False,
                modpath="searcher::verif_c15", crate=ENGINE),
    "c08": dict(file="c08.rs", into="weechess-core/src/hasher.rs", scope=None, mod="verif_c08", pub=True,
                modpath="hasher::verif_c08", crate=CORE),
    "c05": dict(file="c05.rs", into="weechess-engine/src/eval/mod.rs", scope=None, mod="verif_c05", pub=False,
                modpath="eval::verif_c05", crate=ENGINE),
    "c12": dict(file="c12.rs", into="weechess-core/src/notation.rs", scope=None, mod="verif_c12", pub=True,
                modpath="notation::verif_c12", crate=CORE),
    "c14": dict(file="c14.rs", into="weechess-core/src/notation.rs", scope="mod fen", mod="verif_c14", pub=True,
                modpath="notation::fen::verif_c14", crate=CORE),
    "uci": dict(file="c12_uci.rs", into="weechess-engine/src/uci.rs", scope=None, mod="verif_uci", pub=False,
                modpath="uci::verif_uci", crate=ENGINE),
}

# closure bodies extracted verbatim into a function so that they can be put under contract
EXTRACTS = [
    dict(file="weechess-engine/src/uci.rs", marker=".filter_map(|m| {", out="uci_extracted.rs",
         header="pub fn uci_move_token(m: &&str) -> Option<MoveQuery> {"),
]

C20M = "crate::moves::verif_c20::"

# ------------------------------------------------------------------------------------------------
# contracts injected above the real functions (add-only)
# ------------------------------------------------------------------------------------------------


def req(e):
    return "#[cfg_attr(kani, kani::requires(%s))]" % e


def ens(e):
    return "#[cfg_attr(kani, kani::ensures(%s))]" % e


def mod(e):
    return "#[cfg_attr(kani, kani::modifies(%s))]" % e


CONTRACTS = [
    # ---- C20: compact bit-field primitives
    dict(file="weechess-core/src/moves.rs", scope="mod compact", fn="store", attrs=[
        req("offset < 32"),
        mod("data"),
        ens("|_| *data == old(*data) | (((value as u32) << offset) & mask)"),
    ]),
    dict(file="weechess-core/src/moves.rs", scope="mod compact", fn="load", attrs=[
        req("offset < 32"),
        ens("|r: &u8| *r == ((data & mask) >> offset) as u8"),
    ]),
    dict(file="weechess-core/src/moves.rs", scope="mod compact", fn="set_bit", attrs=[
        req("bit < 32"),
        mod("data"),
        ens("|_| *data == if value { old(*data) | (1u32 << bit) } else { old(*data) & !(1u32 << bit) }"),
    ]),
    dict(file="weechess-core/src/moves.rs", scope="mod compact", fn="bit", attrs=[
        req("bit < 32"),
        ens("|r: &bool| *r == ((*data >> bit) & 1 == 1)"),
    ]),
]


def injections():
    out = []
    for g in GROUPS.values():
        out.append(dict(file=g["into"], scope=g.get("scope"), mod=g["mod"], path=g["file"], pub=g.get("pub", False)))
    out.extend(CONTRACTS)
    return out


def K(group, name, kind="proof", tier="quick", desc="", functions=(), **kw):
    g = GROUPS[group]
    o = dict(name=name, harness=g["modpath"] + "::" + name, crate=g["crate"], file=g["file"], kind=kind, tier=tier,
             desc=desc, functions=list(functions), backend="kani")
    o.update(kw)
    return o


PROPS = {}

MOVE_CTORS = ["Move::by_moving", "Move::by_capturing", "Move::by_promoting", "Move::by_capture_promoting",
              "Move::by_en_passant", "Move::by_castling"]
MOVE_ACCESSORS = ["Move::origin", "Move::destination", "Move::piece", "Move::color", "Move::capture",
                  "Move::promotion", "Move::is_en_passant", "Move::is_double_pawn", "Move::castle_side",
                  "Move::is_castle", "Move::is_any_castle", "Move::is_capture", "Move::is_promotion",
                  "Move::resulting_piece", "Move::is_simple_non_capture", "Move::as_raw"]

PROPS["C20"] = dict(
    obligations=[
        K("c20", "c20_store_contract", "contract", desc="compact::store ensures *data == old | ((value<<offset)&mask), frame = data",
          functions=["compact::store"]),
        K("c20", "c20_load_contract", "contract", desc="compact::load ensures r == (data&mask)>>offset",
          functions=["compact::load"]),
        K("c20", "c20_set_bit_contract", "contract", desc="compact::set_bit sets/clears exactly one bit",
          functions=["compact::set_bit"]),
        K("c20", "c20_bit_contract", "contract", desc="compact::bit reads exactly that bit", functions=["compact::bit"]),
        K("c20", "c20_fields_independent", desc="each of the ten BitSetExt setters followed by its getter is the identity "
          "on the field domain and changes no other bit (symbolic 32-bit word)",
          functions=["BitSetExt::{piece,origin,dest,capture,promotion,en_passant,double_pawn,castle_queenside,"
                     "castle_kingside,color} and setters"]),
        K("c20", "c20_layout_disjoint", desc="the ten fields are pairwise disjoint, wide enough, and fit in 29 bits",
          functions=["compact::*_MASK/*_OFFSET"]),
        K("c20", "c20_by_moving_contract", "contract", desc="full attribute tuple == arguments; nothing else set; "
          "double-step flag iff a pawn moves two ranks", functions=["Move::by_moving"] + MOVE_ACCESSORS),
        K("c20", "c20_by_capturing_contract", "contract", functions=["Move::by_capturing"]),
        K("c20", "c20_by_promoting_contract", "contract", functions=["Move::by_promoting"]),
        K("c20", "c20_by_capture_promoting_contract", "contract", functions=["Move::by_capture_promoting"]),
        K("c20", "c20_by_en_passant_contract", "contract", functions=["Move::by_en_passant"]),
        K("c20", "c20_by_castling_contract", "contract", desc="king from e1/e8 to g/c file, castle side set, nothing else",
          functions=["Move::by_castling", "KING_ORIGINS", "CASTLE_DESTS"]),
        K("c20", "c20_eq_iff_attributes", desc="for two arbitrary valid moves: m1 == m2 <=> all nine attributes equal "
          "(injectivity of the packing)", functions=["<Move as PartialEq>::eq"]),
        K("c20", "c20_eq_iff_arguments", desc="constructor-built moves are equal iff the constructor arguments are equal; "
          "different constructors give different moves", functions=MOVE_CTORS),
        K("c20", "c20_serde_newtype_roundtrip", desc="derived Serialize emits exactly newtype_struct(\"Move\", u32 = as_raw) "
          "and derived Deserialize of that u32 gives back an equal move, for every valid move",
          functions=["<Move as Serialize>::serialize", "<Move as Deserialize>::deserialize"]),
    ],
    assumptions=[
        "ciborium's u32 encoding round-trips (external dependency; the obligation drives the derived impls through an "
        "in-harness Serializer/Deserializer that records/replays one u32)",
        "attribute domain: piece kind Pawn..King, squares 0..63, capture/promotion kinds Pawn..King or none "
        "(the type invariants the u8/u32 newtypes do not enforce; stated as requires)",
    ],
    trusted=["serde derive expansion is what rustc compiles (it is part of the verified program text)"],
)

STEP_FNS = ["State::by_performing_move", "Board::new", "Board::piece_map", "Board::piece_occupancy", "BitBoard::set",
            "Square::offset", "Square::from((Rank,File))", "Color::backward", "PieceIndex::new"]
PROPS["C02"] = dict(
    obligations=[
        K("c02", "c02_step_" + c, desc="by_performing_move on a fully symbolic position and a symbolic consistent move of "
          "class '%s', both colours: placement at a symbolic square == mailbox spec, occupancy fields, side, four "
          "castling rights, ep target, both clocks, argument untouched" % c, functions=STEP_FNS, timeout=1500)
        for c in ["quiet", "capture", "double_step", "en_passant", "promotion", "promotion_capture", "castle_king",
                  "castle_queen"]
    ],
    assumptions=[],
    technique="Kani/CBMC: pre/post contract of State::by_performing_move over fully symbolic positions and moves",
    level_text="Proof, complete per step: by_performing_move is executed symbolically on a fully symbolic position "
               "(16 pairwise-disjoint bitboards, side, rights, ep target, clocks) and a fully symbolic move of each of the "
               "eight move classes, and the successor is compared with a mailbox-level spec at a symbolic square; sequences "
               "of moves follow by induction because by_performing_moves applies exactly one such step per loop iteration.",
    level_note="Precondition: the move is consistent with the position (implied by 'legal move of a legal position'), a held "
               "castling right implies king and rook at home, clocks < usize::MAX. Trusted: Kani/CBMC, the mailbox spec.",
)

H = ["ZobristHasher::hash"]
PROPS["C08"] = dict(
    obligations=[
        K("c08", "c08_components_formula", desc="empty board: hash == turn key ^ keys of held castling rights ^ ep file key; "
          "fully symbolic key tables, side, rights, ep, clocks", functions=H),
    ] + [
        K("c08", "c08_clocks_do_not_matter", kind="bounded", bound="placement: the two kings at home", desc="same placement, side, "
          "rights, ep => equal hash for arbitrary (different) clocks", functions=H, timeout=1500),
        K("c08", "c08_separates_castling_rights", desc="positions differing in exactly one castling right differ by exactly "
          "that right's key (so differently unless the key is 0)", functions=H),
        K("c08", "c08_separates_en_passant_white", kind="bounded", bound="one concrete placement (pawns d5 e5 f5), symbolic rights and keys",
          desc="en-passant capture available vs. not, and the two target files, differ by exactly the ep file keys", functions=H),
        K("c08", "c08_separates_en_passant_black", kind="bounded", bound="one concrete placement (pawns d4 e4 f4), symbolic rights and keys",
          desc="same, Black to move", functions=H),
        K("c08", "c08_separates_side_to_move", desc="side to move separated unless the two turn keys coincide", functions=H),
        K("c08", "c08_with_fills_every_cell", desc="ZobristHasher::with draws every one of the 1038 cells from its own "
          "next_u64 call (counting RNG: all cells distinct and non-zero, exactly 1038 draws)", functions=["ZobristHasher::with"]),
    ],
    assumptions=[
        "'differ up to 64-bit chance' is stated structurally: the hashes of two positions differ by exactly the XOR of the keys "
        "of their symmetric difference, a non-empty set of distinct table cells each drawn independently by with(rng); that "
        "such a XOR of random keys is non-zero with probability 1 - 2^-64 is arithmetic, not code",
        "the placement formula for an ARBITRARY base position is not proved (CBMC exhausted 12 GB with symbolic and with constant "
        "key tables); it is checked for the base positions {empty, initial position} plus one or two symbolic pieces (bounded "
        "stand-ins, listed separately); the twelve per-piece loops of hash are independent of each other by inspection",
    ],
    technique="Kani/CBMC: structural contract of ZobristHasher::hash (XOR-homomorphism over fully symbolic key tables)",
    level_text="Proof of structure: for fully symbolic key tables the hash is shown to be the XOR of one table cell per piece, "
               "the turn key, one key per held castling right and the en-passant file key (empty-board formula + one-piece "
               "homomorphism step, composed by induction on the number of pieces), clocks are shown irrelevant, and with(rng) "
               "is shown to draw every cell separately. Equality and separation in the property follow.",
    level_note="Separation is 'up to 64-bit chance' by nature; stated structurally. Piece count per kind is bounded per "
               "obligation (stated in each). Trusted: Kani/CBMC, a size-checked transmute in the harness to obtain a symbolic "
               "nested key table without a loop.",
)

PROPS["C05"] = dict(
    obligations=[
        K("c05", "c05_mate_in_ply_contract", desc="for ALL usize plies: no overflow, >= POS_INF, terminal, negation <= NEG_INF, "
          "non-increasing in ply", functions=["Evaluation::mate_in_ply", "Evaluation::{add,mul,neg}"]),
        K("c05", "c05_is_terminal_contract", desc="is_terminal(x) <=> |x| >= 10000, for all i32", functions=["Evaluation::is_terminal"]),
        K("c05", "c05_evaluate_decision_logic", desc="Evaluator::evaluate with the move generator, try_as_legal_move and the attack "
          "set replaced by their contracts (an oracle for 'has a legal move') and abstract in-range terms: no legal move & in "
          "check => -/+ mate_in_ply(depth) by perspective; no legal move & not in check => exactly 0; otherwise non-terminal",
          functions=["Evaluator::evaluate", "State::is_check", "Board::is_check"], timeout=1500),
        K("c05", "c05_default_terms_are_the_four_evaluators", desc="Evaluator::default() uses EVALUATORS with weights 1.0/0.8/1.0/0.2",
          functions=["Evaluator::default"]),
    ],
    assumptions=[],
    assumed_contracts=["MoveGenerator::compute_legal_moves is empty exactly when there is no legal move (C01)",
                       "PseudoLegalMove::try_as_legal_move returns Some only for a legal move (C01/K4)",
                       "Board::colored_attacks is the attacked-square set (C10)",
                       "each weighted evaluation term difference lies within +-1000 (abstract terms)"],
    technique="Kani/CBMC: contract of Evaluation::mate_in_ply over all usize; Evaluator::evaluate checked against the "
              "contracts of its callees (move-generator oracle) with abstract evaluation terms",
    level_text="Proof: mate_in_ply is decided for every usize ply (no overflow, >= threshold, monotone); the evaluator's "
               "checkmate / stalemate / otherwise decision is executed symbolically with the move generator, the legality "
               "filter and the attack set replaced by their contracts, for symbolic king placement, side, perspective, depth.",
    level_note="Assumes the callee contracts (C01, C10) and that each weighted term difference stays within +-1000; the range "
               "of the REAL terms for extreme material (>= 100 pawn units) is not claimed. Trusted: Kani/CBMC, stubs.",
)

SAN = ["<San as TryFromNotation<MoveQuery>>::try_from_notation"]
PROPS["C12"] = dict(
    obligations=[
        K("c12", "c12_san_parser_inverts_spelling", desc="for every admissible SAN field tuple (piece letter or none, optional "
          "origin file/rank, optional x, destination, promotion with or without '=', optional +/#) the real parser returns "
          "a query with exactly those fields set (piece defaults to Pawn) and no other", functions=SAN, timeout=1500),
        K("c12", "c12_san_castles", desc="O-O / O-O-O with optional +/# parse to the castle query and nothing else", functions=SAN),
        K("c12", "c12_move_query_test_contract", desc="MoveQuery::test(m) <=> every set field agrees with m (promotion compared "
          "with promotion().unwrap_or(piece())), symbolic query x symbolic move", functions=["MoveQuery::test"]),
        K("c12", "c12_coordinate_query_contract", desc="a query built from origin/destination(/promotion) matches exactly the "
          "moves with those coordinates", functions=["MoveQuery::{new,set_origin,set_destination,set_promotion,by_moving_from_to,test}"]),
        K("c12", "c12_lan_writer_contract", desc="Lan writes origin, destination and the lower-case promotion letter, for every "
          "move value, through core::fmt", functions=["<Lan as IntoNotation<Move>>::into_notation", "Display for Square/File/Rank"],
          timeout=1500),
        K("uci", "c12_uci_reader_inverts_lan", desc="the UCI move-token reader (closure body extracted verbatim from Client::exec) "
          "applied to the coordinate text of any move value returns the query with exactly that origin, destination and "
          "promotion, which matches the move", functions=["Client::exec move-token closure (extracted)"], timeout=1500),
    ],
    assumptions=[],
    technique="Kani/CBMC: SAN parser proved to invert a spec writer on every field tuple; MoveQuery::test contract; Lan writer "
              "through core::fmt; UCI reader closure extracted verbatim and proved to invert Lan",
    level_text="Proof, complete on the finite spelling domain: every admissible SAN field tuple is written by an in-harness spec "
               "writer and the real parser must return exactly those fields; MoveQuery::test is proved equivalent to field-wise "
               "agreement for symbolic query x symbolic move; so parse(SAN).test(m') <=> m' agrees with every spelled field. "
               "Uniqueness among legal moves is C01's business.",
    level_note="'matches no other legal move' relies on the spelling being admissible (its fields single out the move) and on C01. "
               "Trusted: Kani/CBMC, the textual closure extractor (verbatim comparison).",
)
PROPS["C14"] = dict(
    obligations=[
        K("c12", "c14_san_total_8", kind="bounded", bound="<= 8 bytes", desc="San parser: no panic/overflow on every string of <= 8 bytes (ASCII plus one arbitrary "
          "wide char anywhere)", functions=SAN, timeout=1500),
        K("c12", "c14_san_total_14", desc="same for <= 14 bytes: the parser consumes at most 11 chars before its 'no more characters' "
          "test rejects, so longer inputs add no behaviour", tier="thorough", functions=SAN, timeout=3000, heavy=True),
        K("c12", "c14_square_file_rank_total", desc="File/Rank::from_char total and exact on all chars; Square::try_from(&str) total on "
          "strings of <= 4 bytes", functions=["File::from_char", "Rank::from_char", "<Square as TryFrom<&str>>::try_from"]),
        K("c14", "c14_fen_board_parser_total_12", kind="bounded", bound="<= 12 chars over the regex alphabet", desc="Board::try_parse: no panic, no overflow",
          functions=["Board::try_parse"], timeout=1500),
        K("c14", "c14_fen_board_parser_digits_40", desc="Board::try_parse on every digit string of <= 40 chars (the strings "
          "that drive the u8 cursor highest): no overflow, no panic", functions=["Board::try_parse"], timeout=1500),
        K("c14", "c14_fen_castle_field_total", desc="castle-field parser total on <= 5 ASCII bytes", functions=["ArrayMap<Color,CastleRights>::try_parse"]),
        K("c14", "c14_fen_piece_letter_total", desc="PieceIndex::try_parse total and exact on all chars", functions=["PieceIndex::try_parse"]),
        K("uci", "c14_uci_token_total", desc="the UCI move-token reader (extracted verbatim) is total on every string of <= 8 "
          "bytes, ASCII plus one arbitrary wide char anywhere (it inspects bytes 0..4 and the 5th char only)", functions=["Client::exec move-token closure (extracted)"],
          timeout=1500),
    ],
    assumptions=[],
    technique="Kani/CBMC: panic/overflow freedom of every function the UCI loop hands user text to, on symbolic strings with "
              "stated length bounds",
    level_text="Proof with stated bounds: San parser, FEN placement/castle/piece parsers, Square/File/Rank readers and the UCI "
               "move-token reader (extracted verbatim) are executed on symbolic text and shown free of panics and arithmetic "
               "overflow; string length is bounded per obligation (bounds chosen above the point after which the code can "
               "show no new behaviour).",
    level_note="Not claimed: process liveness (the stdin loop with threads). Regex::captures and std integer parsing are assumed "
               "total. Strings are ASCII plus at most one arbitrary wide char at an arbitrary position.",
)

def V(name, fns, desc, **kw):
    o = dict(name=name, backend="verus", kind="verus", tier="quick", desc=desc, functions=fns, verus_fns=[f.split("::")[-1] for f in fns],
             file="tt_contracts.rs")
    o.update(kw)
    return o


PROPS["C15"] = dict(
    obligations=[
        K("c15", "c15_bucket_empty_wf", desc="empty bucket satisfies the invariant, holds nothing", functions=["TranspositionBucket::empty"]),
        K("c15", "c15_bucket_find_contract", desc="find(h) == the entry stored under exactly h, or None; fully symbolic 8 slots",
          functions=["TranspositionBucket::find"]),
        K("c15", "c15_bucket_insert_contract", desc="insert_or_replace: find(h)==e afterwards; other keys kept unless Replaced "
          "(bucket full, h absent, exactly one victim); Inserted <=> count+1; invariant preserved; fully symbolic 8 slots",
          functions=["TranspositionBucket::insert_or_replace", "TranspositionInsertionResult::inserted"]),
        V("c15_table_find", ["TranspositionTable::find"], "Verus, Vec of any length: find(h) == view(h), reads only bucket h % len"),
        V("c15_table_insert", ["TranspositionTable::insert", "lemma_sum_update", "lemma_sum_strict", "lemma_sum_bound"],
          "Verus, Vec of any length: insert preserves wf (used_slots == sum of occupied, no overflow), establishes "
          "get(h)==Some(e), changes only bucket h % len, other keys kept unless displaced from the full bucket"),
        V("c15_table_entries", ["TranspositionTable::entries", "TranspositionTable::max_entries", "TranspositionInsertionResult::inserted"],
          "Verus: entries == number of occupied slots <= max_entries == 8*len"),
        V("c15_verus_canaries", [], "three must-fail lemmas (requires <precondition> ensures false) do fail", canary=True),
    ],
    assumptions=[
        "each operation holds the RwLock of its sub-table for its whole duration (every access is self.tables[i].write()/read()"
        ".unwrap().<op>), std::sync::RwLock is correct, no unsafe: concurrent histories are linearised per sub-table; "
        "entries() across sub-tables is not an atomic snapshot -- concurrency is ASSUMED, not proved",
        "the Verus prelude restates the Kani-proved bucket contract (find / insert_or_replace) as assume_specification-style "
        "external_body specs; consistency of the two statements is by review",
        "bucket count > 0 and 8*len <= usize::MAX (requires; the property's quantifier starts at 1)",
    ],
    assumed_contracts=["TranspositionBucket::{find,insert_or_replace} in Verus = the contract Kani proves (c15_bucket_*)"],
    not_claimed=["behaviour under real thread interleavings (assumed via lock discipline)",
                 "the routing layer TranspositionTableAccess::{insert,find} (hash % tables.len() then RwLock read/write): a "
                 "harness through std::sync::RwLock exhausted the 12 GB cap in CBMC even for 2 sub-tables x 2 buckets, so it is "
                 "neither proved nor bounded-checked; both methods use the same index expression (by reading)"],
    technique="Kani/CBMC contract proof of the 8-slot bucket over fully symbolic content + Verus proof of the table over a Vec of "
              "any length on verbatim function bodies",
    level_text="Proof: the bucket contract is decided completely (all 8 slots, keys and entries symbolic); the table contract "
               "(representation invariant used_slots == number of occupied slots, lookup returns the entry under exactly that "
               "key, frame and displacement clauses) is proved by Verus for every bucket count on the verbatim bodies of "
               "find/insert/entries/max_entries; histories follow by induction over these contracts.",
    level_note="Concurrency is assumed through the lock discipline, not proved. The RwLock routing layer is not verified.",
)

PROPS["C20"].update(
    technique="Kani/CBMC: constructor/accessor contracts discharged by loop-free harnesses over the whole attribute "
              "domain; Kani function contracts on the bit-field primitives",
    level_text="Proof, complete: every obligation is a loop-free symbolic execution of the real constructors, accessors, "
               "derived PartialEq and derived serde impls over the entire attribute domain (all colours, kinds, 64x64 "
               "squares, capture and promotion kinds), so the quantifier of the property is decided exhaustively by the "
               "solver rather than sampled.",
    level_note="Assumes ciborium's u32 wire encoding round-trips (the derived impls are driven through an in-harness "
               "serializer that records one u32). Trusted: Kani/CBMC, rustc, the injector.",
)

# Properties this technique family cannot decide here (DESIGN.md section 5), plus properties whose check is not
# built yet (removed from this table as soon as the check is registered).
NOT_APPLICABLE = {
    "C04": "termination / prompt Stop / no panic of the whole multi-threaded search: liveness and wall-clock latency "
           "across rayon, mpsc and spawned threads; no function contract expresses it and Kani has no scheduler",
    "C06": "game-theoretic soundness/completeness of the alpha-beta search with transposition bounds, extensions, "
           "quiescence and lazy-SMP merge: a whole-recursion, whole-schedule property, not a contract on a function",
    "C07": "process-level UCI protocol over stdin/stdout with writer and timer threads; the function-level parts are "
           "claimed under C02, C12 and C14",
    "C16": "book content is a concrete computation over 132 corpus files inside build.rs and 'never answers for another "
           "position' is true only up to 64-bit hash collisions: not a deterministic postcondition of lookup",
    "C18": "local state of the stdin loop inside Client::exec; the ucinewgame arm cannot be called as a function",
    "C19": "2-safety over the whole multi-threaded search; the verifier abstracts exactly the nondeterminism sources "
           "(OS randomness, scheduling, RandomState) the property is about",
}
_PENDING = "check under construction in this commit of /verif; not claimed yet (see DESIGN.md section 4 for the plan)"
for _p in ["C01", "C03", "C09", "C10", "C11", "C13", "C17"]:
    NOT_APPLICABLE.setdefault(_p, _PENDING)
