"""Per-property configuration: harness groups, injected contracts, obligations."""

CORE = "weechess_core"
ENGINE = "weechess_engine"

TRUSTED_BASE = [
    "rustc nightly + Kani 0.68 compiler, CBMC 6.11 and its SAT back end (CaDiCaL); Verus 0.2026.09.13 + Z3",
    "Kani's models of std (Vec, OnceCell, core::fmt, atomics executed sequentially)",
    "the add-only annotation injector (re-checked every run by a diff that must contain insertions only)",
    "the spec functions in /verif/kani/spec.rs as the statement of board geometry and of the rules",
    "absence of unsafe code in the three crates (scanned every run, count reported)",
]

# ------------------------------------------------------------------------------------------------
# harness groups: a harness file is compiled as a cfg(kani) child module of the module that owns the
# (often private) functions it puts under contract
# ------------------------------------------------------------------------------------------------
GROUPS = {
    "spec": dict(file="spec.rs", into="weechess-core/src/lib.rs", scope=None, mod="verif_spec", pub=True,
                 modpath="verif_spec", crate=CORE),
    "c20": dict(file="c20.rs", into="weechess-core/src/moves.rs", scope=None, mod="verif_c20", pub=True,
                modpath="moves::verif_c20", crate=CORE),
    "c02": dict(file="c02.rs", into="weechess-core/src/state.rs", scope=None, mod="verif_c02", pub=True,
                modpath="state::verif_c02", crate=CORE),
    "c15": dict(file="c15.rs", into="weechess-engine/src/searcher.rs", scope=None, mod="verif_c15", pub=False,
                modpath="searcher::verif_c15", crate=ENGINE),
    "c08": dict(file="c08.rs", into="weechess-core/src/hasher.rs", scope=None, mod="verif_c08", pub=True,
                modpath="hasher::verif_c08", crate=CORE),
    "c05": dict(file="c05.rs", into="weechess-engine/src/eval/mod.rs", scope=None, mod="verif_c05", pub=False,
                modpath="eval::verif_c05", crate=ENGINE),
    "c12": dict(file="c12.rs", into="weechess-core/src/notation.rs", scope=None, mod="verif_c12", pub=True,
                modpath="notation::verif_c12", crate=CORE),
    "c14": dict(file="c14.rs", into="weechess-core/src/notation.rs", scope="mod fen", mod="verif_c14", pub=True,
                modpath="notation::fen::verif_c14", crate=CORE),
    "uci": dict(file="c12_uci.rs", into="weechess-engine/src/uci.rs", scope=None, mod="verif_uci", pub=False,
                modpath="uci::verif_uci", crate=ENGINE),
    "c09": dict(file="c09.rs", into="weechess-core/src/attacks.rs", scope="mod data", mod="verif_c09", pub=True,
                modpath="attacks::data::verif_c09", crate=CORE),
    "c10": dict(file="c10.rs", into="weechess-core/src/board.rs", scope=None, mod="verif_c10", pub=True,
                modpath="board::verif_c10", crate=CORE),
    "c01": dict(file="c01.rs", into="weechess-core/src/movegen.rs", scope=None, mod="verif_c01", pub=True,
                modpath="movegen::verif_c01", crate=CORE),
    "c17": dict(file="c17.rs", into="weechess-engine/src/searcher.rs", scope=None, mod="verif_c17", pub=True,
                modpath="searcher::verif_c17", crate=ENGINE),
    "c13": dict(file="c13.rs", into="weechess-engine/src/eval/mod.rs", scope=None, mod="verif_c13", pub=False,
                modpath="eval::verif_c13", crate=ENGINE),
    "c11": dict(file="c11.rs", into="weechess-core/src/notation.rs", scope="mod fen", mod="verif_c11", pub=True,
                modpath="notation::fen::verif_c11", crate=CORE),
    "c15r": dict(file="c15_routing.rs", into="weechess-engine/src/searcher.rs", scope=None, mod="verif_c15_routing", pub=False,
                 modpath="searcher::verif_c15_routing", crate=ENGINE),
    "c17h": dict(file="c17_history.rs", into="weechess-engine/src/searcher.rs", scope=None, mod="verif_c17_history", pub=False,
                 modpath="searcher::verif_c17_history", crate=ENGINE),
    "c18": dict(file="c18.rs", into="weechess-engine/src/uci.rs", scope=None, mod="verif_c18", pub=False,
                modpath="uci::verif_c18", crate=ENGINE),
    "c11w": dict(file="c11_writer.rs", into="weechess-core/src/notation.rs", scope="mod fen", mod="verif_c11_writer", pub=True,
                 modpath="notation::fen::verif_c11_writer", crate=CORE),
    "c09l": dict(file="c09_lookup.rs", into="weechess-core/src/attacks.rs", scope=None, mod="verif_c09_lookup", pub=True,
                 modpath="attacks::verif_c09_lookup", crate=CORE),
    "c01p": dict(file="c01_perft.rs", into="weechess-engine/src/searcher.rs", scope=None, mod="verif_c01_perft", pub=False,
                 modpath="searcher::verif_c01_perft", crate=ENGINE),
}

# closure bodies extracted verbatim into a function so that they can be put under contract
EXTRACTS = [
    dict(file="weechess-engine/src/uci.rs", marker=".filter_map(|m| {", out="uci_extracted.rs", substitute="nothing (a closure body wrapped as a function)",
         header="pub fn uci_move_token(m: &&str) -> Option<MoveQuery> {"),
    # the `bestmove` line of the writer thread in Search::spawn (closure body: cannot be called); `println!` is bound to a buffer sink
    dict(file="weechess-engine/src/uci.rs", marker="if let Some(m) = best_line.first() {", out="uci_bestmove_extracted.rs", substitute="println! -> byte sink",
         header="pub fn uci_print_bestmove(m: &Move) {"),
    # the head of Searcher::analyze_iterative (everything before the iterative-deepening loop; the loop reaches rayon, which crashes the
    # Kani compiler): search memory taken over or created, root hash computed and recorded
    dict(kind="fn_range", file="weechess-engine/src/searcher.rs", scopes=["impl Searcher"], fn="analyze_iterative",
         marker="let max_depth = max_depth.unwrap_or(usize::MAX);", end_marker="for depth in 0..max_depth {", out="analyze_iterative_head_extracted.rs", substitute="ZobristHasher::hash, StateHistory::{lookup,increment} -> contract stubs",
         header="#[allow(unused_mut, unused_variables, unused_assignments)]\npub fn analyze_iterative_head(game_state: State, rng: RandomNumberGenerator, max_depth: Option<usize>, "
                "previous_artifact: Option<SearchArtifact>) -> (ZobristHasher, TranspositionTableAccess, StateHistory, Hash) {",
         footer="let _pin_type: &Option<Move> = &best_mv; // the local's type is inferred from the loop, which is not extracted\n"
                "(hasher, transpositions, state_history, game_state_hash)\n"),
    # the FEN writer: whole body of `<Fen as IntoNotation<State>>::into_notation`, compiled in the harness with `write!` bound to a byte sink
    dict(kind="fn_body", file="weechess-core/src/notation.rs", scopes=["mod fen", "impl IntoNotation<State> for Fen"], fn="into_notation",
         out="fen_writer_extracted.rs", substitute="write! -> byte sink; Display for PieceIndex/Square -> their contracts; std Display for integers -> model / abstract",
         header="pub fn fen_writer_body(value: &State, f: &mut Sink) -> std::fmt::Result {"),
    # the argument parser of the `go` arm of the UCI command loop (between the two marker lines), as a function of the argument tokens
    dict(kind="fn_range", file="weechess-engine/src/uci.rs", scopes=["impl Client"], fn="exec",
         marker="let mut search_time: Option<f64> = None;", end_marker="// TODO: Do we always want to pick a book move?", out="uci_go_args_extracted.rs", substitute="println! -> byte sink",
         header="#[allow(unused_mut, unused_variables, unused_assignments)]\npub fn uci_go_args(args: &[&str]) -> (Option<f64>, Option<usize>) {",
         footer="(search_time, search_depth)\n"),
    # the three slider look-ups, verbatim, compiled in the harness against abstract tables (kani/c09_lookup.rs)
    dict(kind="fns", file="weechess-core/src/attacks.rs", scopes=["impl AttackGenerator"],
         fns=["compute_bishop_attacks", "compute_rook_attacks", "compute_queen_attacks"], out="attack_lookups_extracted.rs", substitute="mod data (slide masks, magics, widths, filled tables) -> abstract symbolic tables",
         header="impl LookUps {", footer="}"),
    # the position history: struct and methods of StateHistory, verbatim, compiled in the harness against a model of the HashMap operations
    dict(kind="fns", file="weechess-engine/src/searcher.rs", scopes=["impl StateHistory"], items=["struct StateHistory"], fns="*", exclude=[],
         require=["new", "increment", "lookup"], out="state_history_extracted.rs", header="#[allow(dead_code)]\nimpl StateHistory {", footer="}",
         substitute="std::collections::HashMap -> association-list model of new / entry().or_insert() / get"),
    # the `ucinewgame` arm of the UCI command loop, as a function over the two loop-local variables it can touch
    dict(file="weechess-engine/src/uci.rs", marker='Some((&"ucinewgame", _)) => {', out="ucinewgame_extracted.rs", substitute="the concrete type Search -> a type parameter with wait_cancel's signature",
         header="#[allow(unused_mut, unused_variables, unused_assignments)]\npub fn ucinewgame_arm<S: SearchLike>(mut current_search: Option<S>, "
                "mut previous_artifact: Option<S::Artifact>) -> (Option<S>, Option<S::Artifact>) {",
         footer="(current_search, previous_artifact)\n"),
    # the routing layer of the transposition table: every method of TranspositionTableAccess except the test constructor and iter_moves
    # (which names the real access type), verbatim, compiled in the harness
    # against a sequential model of std::sync::RwLock (kani/c15_routing.rs)
    dict(kind="fns", file="weechess-engine/src/searcher.rs", scopes=["impl TranspositionTableAccess"],
         items=["struct TranspositionTableAccess"], fns="*", exclude=["small", "iter_moves"],
         require=["with_tables", "insert", "find", "entries", "max_entries"], out="tt_access_extracted.rs", substitute="std::sync::RwLock -> sequential RefCell model; TranspositionTable methods -> recording contract stubs",
         header="#[allow(dead_code)]\nimpl TranspositionTableAccess {", footer="}"),
    # the FEN reader after its regex gate: everything from the first field parser call to the end of the function,
    # with `groups` an index-by-number view of the six captured fields (same Index<usize, Output = str> as regex::Captures)
    dict(kind="fn_tail", file="weechess-core/src/notation.rs", scopes=["mod fen", "impl TryFromNotation<State> for Fen"],
         fn="try_from_notation", marker="let board = Board::try_parse(&groups[1])?;", out="fen_reader_extracted.rs", substitute="regex::Captures -> an index-by-number view of the six captured fields",
         header="pub fn fen_reader_after_regex(groups: &Groups<'_>) -> Result<State, ()> {"),
]

C20M = "crate::moves::verif_c20::"

# ------------------------------------------------------------------------------------------------
# contracts injected above the real functions (add-only)
# ------------------------------------------------------------------------------------------------


def req(e):
    return "#[cfg_attr(kani, kani::requires(%s))]" % e


def ens(e):
    return "#[cfg_attr(kani, kani::ensures(%s))]" % e


def mod(e):
    return "#[cfg_attr(kani, kani::modifies(%s))]" % e


CONTRACTS = [
    # crate attribute needed by the Vec::push model in kani/c01.rs (generic over the allocator)
    dict(file="weechess-core/src/lib.rs", crate_attr="#![cfg_attr(kani, feature(allocator_api))]"),
    dict(file="weechess-engine/src/lib.rs", crate_attr="#![cfg_attr(kani, feature(allocator_api))]"),
    # ---- C20: compact bit-field primitives
    dict(file="weechess-core/src/moves.rs", scope="mod compact", fn="store", attrs=[
        req("offset < 32"),
        mod("data"),
        ens("|_| *data == old(*data) | (((value as u32) << offset) & mask)"),
    ]),
    dict(file="weechess-core/src/moves.rs", scope="mod compact", fn="load", attrs=[
        req("offset < 32"),
        ens("|r: &u8| *r == ((data & mask) >> offset) as u8"),
    ]),
    dict(file="weechess-core/src/moves.rs", scope="mod compact", fn="set_bit", attrs=[
        req("bit < 32"),
        mod("data"),
        ens("|_| *data == if value { old(*data) | (1u32 << bit) } else { old(*data) & !(1u32 << bit) }"),
    ]),
    dict(file="weechess-core/src/moves.rs", scope="mod compact", fn="bit", attrs=[
        req("bit < 32"),
        ens("|r: &bool| *r == ((*data >> bit) & 1 == 1)"),
    ]),
]


def needed_groups(files, kani_dir):
    """Harness groups a set of harness files needs: the groups owning those files plus, transitively, every group whose
    module name (verif_*) one of their sources mentions.  Only these are injected and only the extractions they
    `include!` are made, so that a lost anchor in code a property does not depend on cannot leave it undecided."""
    import os
    import re
    by_file = {g["file"]: k for k, g in GROUPS.items()}
    by_mod = {g["mod"]: k for k, g in GROUPS.items()}
    need = {by_file[f] for f in files if f in by_file}
    need.add("spec")
    need.add("c20")  # `impl kani::Arbitrary for Move` lives there; harnesses use it through kani::any::<Move>() without naming the module
    work = list(need)
    while work:
        k = work.pop()
        txt = open(os.path.join(kani_dir, GROUPS[k]["file"])).read()
        for m in set(re.findall(r"\bverif_\w+", txt)):
            d = by_mod.get(m)
            if d and d not in need:
                need.add(d)
                work.append(d)
    return need


def needed_extraction_outs(groups, kani_dir):
    import os
    import re
    outs = set()
    for k in groups:
        outs |= set(re.findall(r'include!\("([\w.]+)"\)', open(os.path.join(kani_dir, GROUPS[k]["file"])).read()))
    return outs


def injections(groups=None):
    out = []
    for k, g in GROUPS.items():
        if groups is not None and k not in groups:
            continue
        out.append(dict(file=g["into"], scope=g.get("scope"), mod=g["mod"], path=g["file"], pub=g.get("pub", False)))
    out.extend(CONTRACTS)
    return out


def K(group, name, kind="proof", tier="quick", desc="", functions=(), **kw):
    g = GROUPS[group]
    o = dict(name=name, harness=g["modpath"] + "::" + name, crate=g["crate"], file=g["file"], kind=kind, tier=tier,
             desc=desc, functions=list(functions), backend="kani")
    o.update(kw)
    return o


PROPS = {}

MOVE_CTORS = ["Move::by_moving", "Move::by_capturing", "Move::by_promoting", "Move::by_capture_promoting",
              "Move::by_en_passant", "Move::by_castling"]
MOVE_ACCESSORS = ["Move::origin", "Move::destination", "Move::piece", "Move::color", "Move::capture",
                  "Move::promotion", "Move::is_en_passant", "Move::is_double_pawn", "Move::castle_side",
                  "Move::is_castle", "Move::is_any_castle", "Move::is_capture", "Move::is_promotion",
                  "Move::resulting_piece", "Move::is_simple_non_capture", "Move::as_raw"]

PROPS["C20"] = dict(
    obligations=[
        K("c20", "c20_store_contract", "contract", desc="compact::store ensures *data == old | ((value<<offset)&mask), frame = data",
          functions=["compact::store"]),
        K("c20", "c20_load_contract", "contract", desc="compact::load ensures r == (data&mask)>>offset",
          functions=["compact::load"]),
        K("c20", "c20_set_bit_contract", "contract", desc="compact::set_bit sets/clears exactly one bit",
          functions=["compact::set_bit"]),
        K("c20", "c20_bit_contract", "contract", desc="compact::bit reads exactly that bit", functions=["compact::bit"]),
        K("c20", "c20_fields_independent", desc="each of the ten BitSetExt setters followed by its getter is the identity "
          "on the field domain and changes no other bit (symbolic 32-bit word)",
          functions=["BitSetExt::{piece,origin,dest,capture,promotion,en_passant,double_pawn,castle_queenside,"
                     "castle_kingside,color} and setters"]),
        K("c20", "c20_layout_disjoint", desc="the ten fields are pairwise disjoint, wide enough, and fit in 29 bits",
          functions=["compact::*_MASK/*_OFFSET"]),
        K("c20", "c20_by_moving_contract", "contract", desc="full attribute tuple == arguments; nothing else set; "
          "double-step flag iff a pawn moves two ranks", functions=["Move::by_moving"] + MOVE_ACCESSORS),
        K("c20", "c20_by_capturing_contract", "contract", functions=["Move::by_capturing"]),
        K("c20", "c20_by_promoting_contract", "contract", functions=["Move::by_promoting"]),
        K("c20", "c20_by_capture_promoting_contract", "contract", functions=["Move::by_capture_promoting"]),
        K("c20", "c20_by_en_passant_contract", "contract", functions=["Move::by_en_passant"]),
        K("c20", "c20_by_castling_contract", "contract", desc="king from e1/e8 to g/c file, castle side set, nothing else",
          functions=["Move::by_castling", "KING_ORIGINS", "CASTLE_DESTS"]),
        K("c20", "c20_contract_functions_equal_constructors", desc="the five constructor contracts written as functions (spec_pack of the attribute "
          "tuple) are pointwise equal to the real constructors on the whole argument domain, and spec_pack inverts the accessor view",
          functions=MOVE_CTORS[:5]),
        K("c20", "c20_eq_iff_attributes", desc="for two arbitrary valid moves: m1 == m2 <=> all nine attributes equal "
          "(injectivity of the packing)", functions=["<Move as PartialEq>::eq"]),
        K("c20", "c20_eq_iff_arguments", desc="constructor-built moves are equal iff the constructor arguments are equal; "
          "different constructors give different moves", functions=MOVE_CTORS),
        K("c20", "c20_serde_newtype_roundtrip", desc="derived Serialize emits one u32 = as_raw (optionally inside one newtype wrapper) "
          "and derived Deserialize of that u32 gives back an equal move, for every valid move",
          functions=["<Move as Serialize>::serialize", "<Move as Deserialize>::deserialize"]),
    ],
    assumptions=[
        "ciborium's u32 encoding round-trips (external dependency; the obligation drives the derived impls through an "
        "in-harness Serializer/Deserializer that records/replays one u32)",
        "attribute domain: piece kind Pawn..King, squares 0..63, capture/promotion kinds Pawn..King or none "
        "(the type invariants the u8/u32 newtypes do not enforce; stated as requires)",
    ],
    trusted=["serde derive expansion is what rustc compiles (it is part of the verified program text)"],
)

STEP_FNS = ["State::by_performing_move", "Board::new", "Board::piece_map", "Board::piece_occupancy", "BitBoard::set",
            "Square::offset", "Square::from((Rank,File))", "Color::backward", "PieceIndex::new"]
PROPS["C02"] = dict(
    obligations=[
        K("c02", "c02_step_" + c, desc="by_performing_move on a fully symbolic position and a symbolic consistent move of "
          "class '%s', both colours: placement at a symbolic square == mailbox spec, occupancy fields, side, four "
          "castling rights, ep target, both clocks, argument untouched" % c, functions=STEP_FNS, timeout=1500)
        for c in ["quiet", "capture", "double_step", "en_passant", "promotion", "promotion_capture", "castle_king",
                  "castle_queen"]
    ] + [
        K("c02", "c02_select_by_coordinates", kind="bounded", bound="one query; legal list of <= 3 arbitrary moves (generator and step function replaced by their contracts)",
          desc="State::by_performing_moves: coordinates (origin, destination, optional promotion) that match exactly one legal move apply "
          "THAT move, once, to the position handed in, and its successor is the result; no match => UnknownMove; several => AmbiguousMove, nothing applied; "
          "the argument is unchanged", functions=["State::by_performing_moves", "MoveSet::filter", "MoveQuery::test"], timeout=2400, heavy=True),
    ],
    assumptions=[],
    not_claimed=["sequences of more than one query in one by_performing_moves call as ONE obligation: the loop body is exactly one selection + one step "
                 "(c02_select_by_coordinates is proved for an arbitrary position handed in), so longer sequences follow by induction"],
    assumed_contracts=["MoveGenerator::compute_legal_moves lists the legal moves (C01)"],
    trusted=["the models of Vec::push (append in place when capacity suffices) and Vec::reserve (no-op when capacity suffices; both assert that it does) in "
             "c02_select_by_coordinates: Kani's symbolic execution of std's growth path inside `filter(..).collect()` exhausted 12 GB"],
    technique="Kani/CBMC: pre/post contract of State::by_performing_move over fully symbolic positions and moves; selection by coordinates against the generator's contract",
    level_text="Proof, complete per step: by_performing_move is executed symbolically on a fully symbolic position "
               "(16 pairwise-disjoint bitboards, side, rights, ep target, clocks) and a fully symbolic move of each of the "
               "eight move classes, and the successor is compared with a mailbox-level spec at a symbolic square; sequences "
               "of moves follow by induction because by_performing_moves applies exactly one such step per loop iteration; its selection by "
               "coordinates is proved against the generator's and the step function's contracts (legal lists of <= 3 moves, bounded).",
    level_note="Precondition: the move is consistent with the position (implied by 'legal move of a legal position'), a held "
               "castling right implies king and rook at home, clocks < usize::MAX. Trusted: Kani/CBMC, the mailbox spec.",
)

H = ["ZobristHasher::hash"]
PROPS["C08"] = dict(
    obligations=[
        K("c08", "c08_components_formula", desc="empty board: hash == turn key ^ keys of held castling rights ^ ep file key; "
          "fully symbolic key tables, side, rights, ep, clocks", functions=H),
    ] + [
        K("c08", "c08_clocks_do_not_matter", kind="bounded", bound="placement: the two kings at home", desc="same placement, side, "
          "rights, ep => equal hash for arbitrary (different) clocks", functions=H, timeout=1500),
        K("c08", "c08_separates_castling_rights", desc="positions differing in exactly one castling right differ by exactly "
          "that right's key (so differently unless the key is 0)", functions=H),
    ] + [
        K("c08", "c08_separates_en_passant_%s_%s" % (c, f), kind="bounded", bound="one concrete placement per harness: victim pawn on file %s, capturing pawns on "
          "the neighbouring files; symbolic rights and keys" % f, tier=("quick" if f in "ah" else "thorough"),
          desc="%s to move, en-passant capture AVAILABLE on file %s: with vs. without the target differ by exactly that file's key; targets on two "
          "files are separated by the two keys" % (c, f), functions=H)
        for c in ["white", "black"] for f in "abcdefgh"
    ] + [
        K("c08", "c08_placement_formula_symbolic_2", kind="bounded", bound="<= 2 pieces per piece index (up to 24 pieces), squares fully symbolic", tier="experimental",
          desc="hash == components ^ XOR over occupied squares of K[square][piece], arbitrary position, fully symbolic key tables", functions=H,
          timeout=3600, heavy=True, mem_gb=24, unwindset_rules=[("hash", r"iter_ones\(\)", 3)]),
        K("c08", "c08_separates_side_to_move", desc="side to move separated unless the two turn keys coincide", functions=H),
        dict(name="c08_native_placement_exhaustive", backend="native", kind="bounded", tier="quick", crate=CORE, file="c08.rs",
             test="c08_native_placement_exhaustive", bound="native execution (not symbolic): key tables from 3 seeds x 3 component settings x every "
             "(piece, square) and every pair of placements on different squares, plus the initial position", desc="the REAL hash equals components ^ "
             "XOR of K[square][piece] over the pieces", functions=["ZobristHasher::hash", "ZobristHasher::with"], timeout=1800),
        K("c08", "c08_with_fills_every_cell", desc="ZobristHasher::with draws every one of the 1038 cells from its own "
          "next_u64 call (counting RNG: all cells distinct and non-zero, exactly 1038 draws)", functions=["ZobristHasher::with"]),
    ],
    assumptions=[
        "'differ up to 64-bit chance' is stated structurally: the hashes of two positions differ by exactly the XOR of the keys "
        "of their symmetric difference, a non-empty set of distinct table cells each drawn independently by with(rng); that "
        "such a XOR of random keys is non-zero with probability 1 - 2^-64 is arithmetic, not code",
        "the placement formula for an ARBITRARY base position is not proved (CBMC exhausted 12 GB with symbolic and with constant "
        "key tables); it is covered by a native exhaustive stand-in (real hash; every one- and two-piece placement and the initial "
        "position, key tables from three seeds), listed as bounded; the twelve per-piece loops of hash are independent of each other by inspection",
    ],
    technique="Kani/CBMC: structural contract of ZobristHasher::hash (XOR-homomorphism over fully symbolic key tables); en-passant separation per file "
              "with the capture available; native exhaustive run for the placement part (bounded stand-in)",
    level_text="Proof of structure: for fully symbolic key tables the hash is shown to be the XOR of one table cell per piece, "
               "the turn key, one key per held castling right and the en-passant file key (empty-board formula + one-piece "
               "homomorphism step, composed by induction on the number of pieces), clocks are shown irrelevant, and with(rng) "
               "is shown to draw every cell separately. Equality and separation in the property follow.",
    level_note="Separation is 'up to 64-bit chance' by nature; stated structurally. Piece count per kind is bounded per "
               "obligation (stated in each). Trusted: Kani/CBMC, a size-checked transmute in the harness to obtain a symbolic "
               "nested key table without a loop.",
)

PROPS["C05"] = dict(
    obligations=[
        K("c05", "c05_mate_in_ply_contract", desc="for ALL usize plies: no overflow, >= POS_INF, terminal, negation <= NEG_INF, "
          "non-increasing in ply", functions=["Evaluation::mate_in_ply", "Evaluation::{add,mul,neg}"]),
        K("c05", "c05_is_terminal_contract", desc="is_terminal(x) <=> |x| >= 10000, for all i32", functions=["Evaluation::is_terminal"]),
        K("c05", "c05_evaluate_decision_logic", desc="Evaluator::evaluate with the move generator, try_as_legal_move and the attack "
          "set replaced by their contracts (an oracle for 'has a legal move') and abstract in-range terms: no legal move & in "
          "check => -/+ mate_in_ply(depth) by perspective; no legal move & not in check => exactly 0; otherwise non-terminal",
          functions=["Evaluator::evaluate", "State::is_check", "Board::is_check"], timeout=1500),
        K("c05", "c05_default_terms_are_the_four_evaluators", desc="Evaluator::default() uses EVALUATORS with weights 1.0/0.8/1.0/0.2",
          functions=["Evaluator::default"]),
    ],
    assumptions=[],
    assumed_contracts=["MoveGenerator::compute_legal_moves is empty exactly when there is no legal move (C01)",
                       "PseudoLegalMove::try_as_legal_move returns Some exactly for the legal moves (C01/K4)",
                       "MoveGenerator::compute_psuedo_legal_moves_into lists a legal move exactly when one exists (C01/K1-K3); the stub offers "
                       "up to three arbitrary move values",
                       "Board::colored_attacks is the attacked-square set (C10)",
                       "each evaluation term lies within +-10^6 (abstract terms; only excludes i32 overflow of the sum)"],
    technique="Kani/CBMC: contract of Evaluation::mate_in_ply over all usize; Evaluator::evaluate checked against the "
              "contracts of its callees (move-generator oracle) with abstract evaluation terms",
    level_text="Proof: mate_in_ply is decided for every usize ply (no overflow, >= threshold, monotone); the evaluator's "
               "checkmate / stalemate / otherwise decision is executed symbolically with the move generator, the legality "
               "filter and the attack set replaced by their contracts, for symbolic king placement, side, perspective, depth.",
    level_note="Assumes the callee contracts (C01, C10) (abstract terms of any magnitude up to 10^6). Trusted: Kani/CBMC, stubs.",
)

UNOPT = ["data::compute_rook_attacks_unoptimized", "data::compute_bishop_attacks_unoptimized"]
# the indexing scheme of the table FILL loops, which the look-up contract and the perfect-hashing conditions are written against: if the fill loops
# move to another scheme, those two obligations are undecided (the native stand-in still decides look-up after fill)
MAGIC_SCHEME = [("weechess-core/src/attacks.rs", r"let table_index = u64::wrapping_mul\(_blockers, magic\) >> shift;", 2),
                ("weechess-core/src/attacks.rs", r"let shift = 64 - ROOK_MAGIC_INDEXES\[\*square\];", 1),
                ("weechess-core/src/attacks.rs", r"let shift = 64 - BISHOP_MAGIC_INDEXES\[\*square\];", 1)]
PROPS["C09"] = dict(
    obligations=[
        K("c09", "c09_square_offset_contract", desc="Square::offset is Some exactly for on-board results and equals file/rank "
          "arithmetic (no wrap)", functions=["Square::offset"]),
        K("c09", "c09_bitboard_shift_contract", desc="BitBoard::shift is the set image under offset: pointwise at a symbolic "
          "square, symbolic board, file steps -2..2, rank steps -7..7", functions=["BitBoard::shift"]),
        K("c09", "c09_knight_table_contract", desc="lookup(s).test(t) <=> (|df|,|dr|) in {(1,2),(2,1)}, symbolic s,t, through the "
          "real lazy table", functions=["AttackGenerator::compute_knight_attacks", "data::compute_knight_attacks"], timeout=1500),
        K("c09", "c09_king_table_contract", desc="king pattern", functions=["AttackGenerator::compute_king_attacks", "data::compute_king_attacks"], timeout=1500),
        K("c09", "c09_pawn_table_contract", desc="pawn pattern, both colours", functions=["AttackGenerator::compute_pawn_attacks", "data::compute_pawn_attacks"], timeout=1500),
        K("c09", "c09_compute_ray_contract", desc="compute_ray(s,d).test(t) <=> t on the ray from s in direction d", functions=["data::compute_ray"]),
        K("c09", "c09_rays_table_contract", desc="RAYS[d][s] == the ray", functions=["data::compute_rays"], timeout=1500),
        K("c09", "c09_rook_unoptimized_contract", desc="rook_unoptimized(s,occ).test(t) <=> t on a rook line from s and all squares "
          "strictly between empty; symbolic s, t, occ", functions=UNOPT[:1], timeout=2400, heavy=True),
        K("c09", "c09_bishop_unoptimized_contract", desc="same for bishop diagonals", functions=UNOPT[1:], timeout=2400, heavy=True),
        K("c09", "c09_rook_slide_masks_builder_contract", desc="compute_rook_slide_masks()[s].test(t) <=> t on a rook line from s and not the last square of its ray; "
          "symbolic s, t (the builder is called directly; the lazy static only caches its result)", functions=["data::compute_rook_slide_masks"], timeout=2400, heavy=True),
        K("c09", "c09_bishop_slide_masks_builder_contract", desc="same for the bishop masks", functions=["data::compute_bishop_slide_masks"], timeout=2400, heavy=True),
        K("c09l", "c09_lookups_read_the_masked_magic_key", desc="AttackGenerator::compute_{rook,bishop,queen}_attacks (verbatim, against ABSTRACT tables): the look-up "
          "reads row `square` of the piece's own filled table at ((occ & MASK[sq]) * MAGIC[sq]) >> (64 - WIDTH[sq]) for every table content, square and "
          "occupancy; queen = rook | bishop", functions=["AttackGenerator::compute_rook_attacks", "AttackGenerator::compute_bishop_attacks",
          "AttackGenerator::compute_queen_attacks"], timeout=1500, anchors=MAGIC_SCHEME),
        K("c09", "c09_lemma_off_mask_blockers_irrelevant", desc="spec-level lemma: blockers outside the slide mask never change the "
          "slider attack set (with the unopt and mask contracts: unopt(s,occ) == unopt(s, occ & mask(s)))", functions=[], timeout=1500),
        K("c09", "c09_blockers_from_index_contract", desc="compute_blockers_from_index deposits the low bits of the index into the "
          "mask (so indexes 0..2^popcount enumerate every subset exactly once)", functions=["data::compute_blockers_from_index"]),
    ] + [
        dict(name="c09_magic_constants_hash_perfectly", backend="smt", kind="smt", tier="quick", file="c09.rs",
             cmd=["python3-vt", "driver/magic_vc.py", "{src}/weechess-core/src/attacks.rs"],
             desc="the real ROOK/BISHOP magic constants and index widths, extracted from attacks.rs on every run: for every one of the 128 "
             "(piece, square) pairs no two blocker subsets of the slide mask with different attack sets share a table index "
             "(64-bit machine multiplication and shift as bit-vectors), and 1 <= width <= 12, width >= popcount(mask); 128 queries, all unsat",
             functions=["data::ROOK_MAGICS", "data::BISHOP_MAGICS", "data::ROOK_MAGIC_INDEXES", "data::BISHOP_MAGIC_INDEXES"], timeout=900, anchors=MAGIC_SCHEME),
    ] + [
        dict(name="c09_native_magic_tables_exhaustive", backend="native", kind="bounded", tier="quick", crate=CORE, file="c09.rs",
             test="c09_native_magic_tables_exhaustive", bound="native execution (not symbolic): every square x every subset of its "
             "slide mask x 3 off-mask noise patterns, rook, bishop and queen look-ups; slide masks for all 64 x 64 square pairs",
             desc="the REAL table builders, look-ups and slide masks against the geometric spec", functions=["data::compute_rook_magic_table", "data::compute_bishop_magic_table",
             "AttackGenerator::compute_{rook,bishop,queen}_attacks"], timeout=1800),
    ],
    assumptions=["the composition 'look-up after fill == unopt' needs the two fill loops (262 144 iterations over Vec), which cannot be "
                 "executed symbolically here; given the subset-enumeration, perfect-hashing, slide-mask, look-up and off-mask obligations the fill loop can "
                 "only fail by not being the loop it appears to be; that gap is covered by the native exhaustive stand-in only"],
    technique="Kani/CBMC: geometry contracts of the ray/leaper/slider generators and slide-mask builders pointwise at symbolic squares; the slider look-ups "
              "(extracted verbatim) against abstract tables; z3 on generated verification conditions for the perfect hashing of the real magic constants; "
              "native exhaustive run for the two table fill loops (bounded stand-in)",
    level_text="Proof for geometry, for the perfect hashing of the real constants and for the look-up functions: Square::offset and BitBoard::shift never wrap; the "
               "knight/king/pawn tables (through the real lazy statics), compute_ray, RAYS, both unoptimised slider generators "
               "(symbolic square, target and occupancy against ray walking up to the first blocker), the two slide-mask builders and the subset enumeration "
               "are proved against file/rank arithmetic; for every square the real magic multipliers (extracted every run) are proved "
               "collision-free on attack sets by z3; the rook/bishop/queen look-ups are proved to read their own table at the masked magic key for every "
               "table content. Only the two table fill loops (262 144 iterations over Vec) are a bounded (native, exhaustive) stand-in.",
    level_note="Table fill loops: native exhaustive stand-in (all squares x all mask subsets x 3 noise patterns through the real builders and look-ups), "
               "reported as bounded, never as proved. The look-up contract ranges over four sparse magic multipliers per piece.",
)

PROPS["C01"] = dict(
    obligations=[
    ] + [
        K("c01", "c01_k2_expand_moves_contract", kind="bounded", bound="<= 3 destination squares; position fully symbolic",
          desc="K2 expand_moves: appends exactly one move per destination in ascending order, capture kind = kind standing there, "
          "nothing else changes", functions=["GameStateHelper::expand_moves", "Board::piece_at"], timeout=2400),
        K("c01", "c01_k1_pawn_moves_sound", kind="bounded", bound="one own pawn; every other piece arbitrary", tier="quick", desc="K1 compute_pawn_moves "
          "against the constructor contracts, soundness: every generated move satisfies the mailbox rules for pushes, double steps, captures, en "
          "passant and the four promotions with exact attributes; no duplicates", functions=["MoveGenerator::compute_pawn_moves"], timeout=5400, heavy=True, mem_gb=30,
          unwindset_rules=[("compute_pawn_moves", r"iter_ones\(\)", 2), ("compute_pawn_moves", r"PROMOTION_TYPES", 5), ("compute_pawn_moves", r"OFFSETS", 3)]),
        K("c01", "c01_k1_pawn_moves_complete", kind="bounded", bound="one own pawn; every other piece arbitrary", tier="quick", desc="K1 completeness: every "
          "move value the rules allow is generated", functions=["MoveGenerator::compute_pawn_moves"], timeout=5400, heavy=True, mem_gb=30,
          unwindset_rules=[("compute_pawn_moves", r"iter_ones\(\)", 2), ("compute_pawn_moves", r"PROMOTION_TYPES", 5), ("compute_pawn_moves", r"OFFSETS", 3)]),
        K("c01", "c01_k1_pawn_moves_sound_3", kind="bounded", bound="<= 3 own pawns; every other piece arbitrary", tier="thorough", desc="K1 soundness "
          "with up to three pawns (eight pawns did not finish in two hours)", functions=["MoveGenerator::compute_pawn_moves"], timeout=7200, heavy=True, mem_gb=30,
          unwindset_rules=[("compute_pawn_moves", r"iter_ones\(\)", 4), ("compute_pawn_moves", r"PROMOTION_TYPES", 5), ("compute_pawn_moves", r"OFFSETS", 3)]),
        K("c01", "c01_k1_pawn_moves_complete_3", kind="bounded", bound="<= 3 own pawns; every other piece arbitrary", tier="thorough", desc="K1 completeness with up "
          "to three pawns", functions=["MoveGenerator::compute_pawn_moves"], timeout=7200, heavy=True, mem_gb=30,
          unwindset_rules=[("compute_pawn_moves", r"iter_ones\(\)", 4), ("compute_pawn_moves", r"PROMOTION_TYPES", 5), ("compute_pawn_moves", r"OFFSETS", 3)]),
    ] + [
        K("c01", "c01_k2_%s_moves" % k, kind="bounded", bound="<= 3 own pieces of the kind; abstract attack function; expand_moves replaced by its contract",
          desc="K2 compute_%s_moves: calls expand_moves once per own %s, in square order, with destinations A(piece) minus own pieces"
          % (k, k), functions=["MoveGenerator::compute_%s_moves" % k], timeout=2400)
        for k in ["knight", "bishop", "rook", "queen"]
    ] + [
        K("c01", "c01_k3_king_moves_and_castling", kind="bounded", bound="<= 3 own pieces per kind (irrelevant to this function); abstract attack "
          "function and attacked set; expand_moves replaced by its contract",
          desc="K3 compute_king_moves: king steps = A(king) minus own pieces minus attacked squares; castling pushed iff right & squares "
          "between king and rook empty & e/f/g (c/d/e) unattacked, exactly Move::by_castling, king side first",
          functions=["MoveGenerator::compute_king_moves", "Move::by_castling"], timeout=2400),
        K("c01", "c01_k3_castling_constants", desc="KING_ORIGINS, CASTLE_DESTS, CASTLE_PATH_MASKS, CASTLE_CHECK_MASKS, FILE_MASKS, RANK_MASKS "
          "equal the squares the rules name", functions=["common::*"]),
        K("c01", "c01_k4_try_as_legal_move", desc="K4 try_as_legal_move: Some(mv, next) iff the mover's king is not attacked in "
          "next == by_performing_move(state, mv); fully symbolic position and move", functions=["PseudoLegalMove::try_as_legal_move"], timeout=2400),
        K("c01p", "c01_perft_depth_one", kind="bounded", bound="depth 1, <= 2 legal moves", desc="Searcher::perft_recursive, leaf-counting branch: with one "
          "buffer the count is the number of legal moves (generator replaced by its contract)", functions=["Searcher::perft_recursive"], timeout=2400),
        K("c01p", "c01_perft_chain", kind="bounded", bound="depth 2, <= 1 legal move per node", desc="Searcher::perft_recursive, recursive branch: the count is "
          "the number of leaves and the callback receives each root move's subtree size", functions=["Searcher::perft_recursive"], timeout=2400,
          unwindset_rules=[("perft_recursive", r"legal_moves\.iter\(\)", 2)]),
        K("c01p", "c01_perft_counts_the_legal_tree", kind="bounded", bound="depth 2, <= 2 legal moves per node (every shape of such a tree)",
          desc="Searcher::perft_recursive with the generator replaced by its contract: the count is the number of leaves of the legal-move tree at "
          "that depth, and the per-root-move callback receives each subtree's size", functions=["Searcher::perft_recursive"], timeout=3000, heavy=True,
          unwindset_rules=[("perft_recursive", r"legal_moves\.iter\(\)", 3)]),
        K("c01", "c01_k0_pseudo_legal_runs_all_six_generators", desc="K0 compute_psuedo_legal_moves_into clears the list and runs the pawn, knight, "
          "king, bishop, rook and queen generators exactly once each on the same position, each appending to what the others produced",
          functions=["MoveGenerator::compute_psuedo_legal_moves_into"], timeout=1500),
        K("c01", "c01_k5_legal_moves_is_filter", kind="bounded", bound="pseudo-legal lists of three arbitrary moves, all eight accept/reject patterns", desc="K5 compute_legal_moves_into == order-preserving "
          "filter of the pseudo-legal list by the legality oracle; stale buffer content does not leak",
          functions=["MoveGenerator::compute_legal_moves_into", "MoveGenerationBuffer::clear"], timeout=2400),
    ],
    assumptions=["K6 (spec level, argued in DESIGN.md): the king-step pre-filter `& !opposing_attacks` (attack map computed with the king on "
                 "the board) never removes a legal king move, and en-passant discovered checks are caught by K4 because the victim "
                 "is removed in the successor",
                 "distinct legal moves differ in (origin, destination, promotion): follows from K1-K3 (no duplicates) by inspection"],
    trusted=["the model of Vec::push used in K1 and K5 (append in place when capacity suffices; the harness allocates capacity 128 and the model "
             "asserts it suffices) instead of Kani's symbolic execution of std's growth path"],
    assumed_contracts=["attack look-ups == geometry (C09)", "Board::colored_attacks == attacked-square set (C10)",
                       "the five Move constructors == their contract functions (C20: c20_contract_functions_equal_constructors)",
                       "State::by_performing_move == successor (C02)", "Move constructors carry their attributes (C20)"],
    not_claimed=["perft node counts (perft_recursive not put under contract in the time available)",
                 "the top-level statement for an arbitrary legal position as ONE machine-checked theorem: it is the composition of "
                 "K1-K5 with C02/C09/C10/C20, composed on paper"],
    technique="Kani/CBMC: per-function contracts K1-K5 of the move generator, each checked against the contracts of its callees "
              "(abstract attack function, attacked-set oracle, expand_moves contract, legality oracle)",
    level_text="Proof by composition, bounded where stated: K1 (pawn pushes, double steps, captures, en passant, the four promotions: sound, "
               "complete, exact attributes, no duplicates; against the Move constructors' contracts), K2 (expand_moves contract; knight/bishop/rook/queen generators call it "
               "with exactly A(piece) minus own pieces), K3 (king steps and the castling rule with exactly the squares the rules "
               "name), K4 (legality filter == own king not attacked in the C02 successor), K5 (the legal list is the order-preserving filter of the pseudo-legal list, every accept/reject pattern over three moves). Each is decided on fully symbolic positions; loop bounds (piece counts, target counts) are "
               "stated per obligation and those obligations are reported as bounded.",
    level_note="The composition into 'generated set == FIDE-legal set' is on paper (DESIGN.md section 4/C01) and assumes C02, C09, C10, "
               "C20. perft is not claimed.",
)

PROPS["C17"] = dict(
    obligations=[
        K("c17", "c17_repetition_is_a_draw", desc="analyze_recursive with current_depth > 0 and the position's hash recorded in the "
          "history returns exactly EVEN, does not read or write the transposition table, generates no move, counts one node; "
          "symbolic position, bounds, depths", functions=["Searcher::analyze_recursive"], timeout=2400),
        K("c17", "c17_root_is_not_a_repetition", desc="at current_depth == 0 the history is not consulted; the table is probed "
          "with the position's hash and a deep exact entry is returned", functions=["Searcher::analyze_recursive"], timeout=2400),
        K("c17h", "c17_history_is_a_faithful_multiset", kind="bounded", bound="histories of <= 3 recordings from new(); std HashMap replaced by an association-list model",
          desc="StateHistory (struct and methods extracted verbatim): after any <= 3 increments lookup(k) is Some exactly for the recorded hashes, with their "
          "multiplicity", functions=["StateHistory::new", "StateHistory::increment", "StateHistory::lookup"], timeout=1500),
        K("c17", "c17_root_hash_is_recorded", desc="the head of analyze_iterative (everything before the iterative-deepening loop, extracted verbatim): "
          "with a search memory handed over, the root position's hash -- computed by the memory's hasher -- and nothing else is recorded in the memory's "
          "history before the first iteration", functions=["Searcher::analyze_iterative (head, extracted)"], timeout=2400),
    ],
    assumptions=[],
    assumed_contracts=["ZobristHasher::hash (C08)", "StateHistory::{lookup,increment} are a map from hash to count: checked for histories of <= 3 recordings against a model of std's HashMap "
                       "(c17_history_is_a_faithful_multiset); for longer histories assumed (std HashMap)"],
    not_claimed=["the iterative-deepening loop of analyze_iterative itself: any harness reaching it crashes the Kani 0.68 compiler (catch_unwind "
                 "intrinsic via rayon); its head (memory taken over, root hash recorded) is extracted and under contract",
                 "the consequence in the property text (the search still reports a win and avoids the repeating move): a statement "
                 "about the whole search, not a function contract"],
    technique="Kani/CBMC: contract on the early return of analyze_recursive with hasher, history and table replaced by their contracts; head of "
              "analyze_iterative and StateHistory extracted verbatim",
    level_text="Proof of the local rule only: the early-return contract of analyze_recursive (repetition => EVEN without touching "
               "the table or generating moves), the root exemption, analyze_iterative's head recording the root hash (extracted verbatim), each for "
               "symbolic inputs with the hasher, history and transposition table replaced by their contracts; StateHistory itself against a model of "
               "std's HashMap for histories of <= 3 recordings (bounded).",
    level_note="The game-level consequence (still finds the other mate) is not claimed. Callee contracts assumed (C08, HashMap).",
)
PROPS["C03"] = dict(
    obligations=[
        K("c17", "c03_line_iterator_step", desc="TranspositionTableMoveIterator::next: stops past max_depth or on a missing entry; "
          "otherwise yields (stored move, by_performing_move(current, move)), makes the successor current, advances the index",
          functions=["TranspositionTableMoveIterator::next"], timeout=2400),
        K("c17", "c03_line_starts_at_the_root", desc="TranspositionTableAccess::iter_moves: the walk starts at the position handed in (index 0, given depth limit): its first "
          "step yields the table's move for THAT position with that position's successor, or nothing", functions=["TranspositionTableAccess::iter_moves",
          "TranspositionTableMoveIterator::next"], timeout=2400),
    ],
    assumptions=["table invariant: an entry stored under key k carries a move that is legal in every position hashing to k -- "
                 "established by the two insert sites of analyze_recursive (the move comes from try_as_legal_move on the position "
                 "whose hash is the key) and by the hash separating everything rule-relevant (C08, after fix 8ce0c17), up to 64-bit "
                 "collisions; NOT machine-checked"],
    assumed_contracts=["State::by_performing_move (C02)", "ZobristHasher::hash (C08)", "TranspositionTableAccess::find (C15)"],
    not_claimed=["the line is non-empty and at least one report is made (needs the root entry to survive concurrent displacement: "
                 "a schedule/history statement)", "the table invariant itself (argued, see assumptions)"],
    technique="Kani/CBMC: contract of the principal-line iterator (start at the root, step) against the table and successor contracts",
    level_text="Proof of the line builder only (start and step): the walk starts at the searched position; every reported move is the table's move for the position reached so far "
               "and the position is advanced by exactly that move, for symbolic position, index, depth limit and table answer; "
               "legality of the reported move then follows from the table invariant, which is argued, not proved.",
    level_note="Legality rests on the (unproved) table invariant and on C08; non-emptiness and 'at least one report' not claimed.",
)

PROPS["C13"] = dict(
    obligations=[
        K("c13", "c13_mul_f32_is_odd", desc="(x*w) as i32 is odd in x for every i32 != MIN and the weights used", functions=["<Evaluation as Mul<f32>>::mul"], timeout=1500),
        K("c13", "c13_neg_sub_antisymmetric", desc="a - b == -(b - a) on Evaluation", functions=["Evaluation::{sub,neg}"]),
        K("c13", "c13_evaluate_is_antisymmetric", desc="Evaluator::evaluate(s, White, d) == -evaluate(s, Black, d): real control flow, "
          "mate/stalemate branch included, callees replaced by their contracts, four abstract terms with arbitrary per-perspective values, "
          "up to 8 candidate king steps (measured 1800 s)", functions=["Evaluator::evaluate"], timeout=5400, tier="thorough", heavy=True),
        K("c13", "c13_evaluate_is_antisymmetric_quick", kind="bounded", bound="no candidate king step (the shortcut never fires) and two abstract terms with weights 1.0 and 0.8",
          desc="same obligation through the move-generation branch only", functions=["Evaluator::evaluate"], timeout=2400),
        K("c13", "c13_piece_square_mirror", desc="evaluate_piece_square(k, sq, White, w) == evaluate_piece_square(k, flip(sq), Black, w) for all "
          "kinds, squares and every weight in [0,1]", functions=["evaluate_piece_squares::evaluate_piece_square", "Square::flip_rank"], timeout=1500),
        K("c13", "c13_piece_squares_is_a_sum_over_pieces", kind="bounded", bound="<= 3 own pieces per kind; per-piece score = one symbolic spike",
          unwindset_rules=[("evaluate_piece_squares", r"iter_ones\(\)", 4)],
          desc="evaluate_piece_squares::evaluate adds exactly evaluate_piece_square(kind, square, perspective, game-phase weight) once per own piece and "
          "nothing else (so the term is a sum of mirror-invariant summands)", functions=["evaluate_piece_squares::evaluate"], timeout=2400, lemma=True),
        K("c13", "c13_variation_mirror", desc="StateVariation::from of the mirrored position == the colour-swapped one (counts, end-game weight); "
          "fully symbolic position", functions=["StateVariation::from"], timeout=1500),
        K("c13", "c13_piece_worths_mirror", desc="material term on position vs mirror", functions=["evaluate_piece_worths::evaluate"], timeout=1500),
        K("c13", "c13_bad_pawns_mirror", desc="doubled/isolated pawn term on position vs mirror, fully symbolic position", functions=["evaluate_bad_pawns::evaluate"], timeout=1500),
        K("c13", "c13_king_edge_mirror", desc="king-to-edge term on position vs mirror, fully symbolic position, one king each",
          functions=["evaluate_force_king_to_edge::evaluate"], timeout=2400),
    ],
    assumptions=["the square-table term of the whole position is mirror-invariant: it is the sum over the own pieces of evaluate_piece_square "
                 "(c13_piece_squares_is_a_sum_over_pieces, <= 3 pieces per kind), each summand is mirror-invariant (c13_piece_square_mirror), so is the "
                 "game-phase weight (c13_variation_mirror), and mirroring is a bijection on the pieces that only reorders i32 additions (commutative, "
                 "no overflow for <= 32 pieces of <= 50 each) -- the last step is argued",
                 "the move-generator oracle is the same for a position and its mirror (C01 is colour-symmetric by its contracts)"],
    technique="Kani/CBMC: oddness of the float weighting, antisymmetry of evaluate against callee contracts, per-term mirror contracts, sum-over-pieces lemma",
    level_text="Proof: the perspective antisymmetry evaluate(s,W,d) == -evaluate(s,B,d) is proved on the real control flow with "
               "abstract terms; mirror invariance is proved per term (square tables for all kinds/squares/weights; material, pawn "
               "structure and king-edge terms and the game-phase weight on fully symbolic positions vs. their mirrors) and composed.",
    level_note="Whole-evaluate mirror invariance is the composition of the per-term contracts (sum over pieces argued). Float semantics: "
               "CBMC's IEEE-754 model.",
)

WRITER_LOOPS = [("fen_writer_body", r"for file in File::ALL", 9), ("fen_writer_body", r"for rank in Rank::ALL", 9),
                ("piece_at", r"for piece in Piece::ALL", 8), ("piece_at", r"for color in Color::ALL", 3),
                ("From<&board::Board>", r"for square in Square::ALL", 65),
                ("Board::new", r"for \w+ in Piece::ALL", 8), ("Board::new", r"for \w+ in Color::ALL", 3)]
PROPS["C11"] = dict(
    obligations=[
        K("c11", "c11_castling_field_parse_inverse", desc="the castling-field parser inverts the canonical spelling (KQkq order or '-') for all 16 sets",
          functions=["ArrayMap<Color,CastleRights>::try_parse"]),
        K("c11", "c11_square_text_roundtrip", desc="Display for Square writes file letter + rank digit and Square::try_from reads it back, all 64 squares",
          functions=["Display for Square/File/Rank", "<Square as TryFrom<&str>>::try_from"]),
        K("c11", "c11_reader_dashes_contract", desc="the FEN reader after its regex gate (function tail extracted verbatim) on the dash forms: '-' "
          "castling field and '-' en-passant field give no rights and no target", functions=["<Fen as TryFromNotation<State>>::try_from_notation (after Regex::captures)"], timeout=2400),
    ] + [
        K("c11", "c11_reader_%s_contract" % f, desc="the FEN reader after its regex gate (function tail extracted verbatim) with the %s symbolic and the other "
          "fields fixed: it returns exactly the components spelled" % d,
          functions=["<Fen as TryFromNotation<State>>::try_from_notation (after Regex::captures)"] + fx, timeout=2400)
        for f, d, fx in [("castling_field", "castling set (all 16; fixed-length spelling)", ["ArrayMap<Color,CastleRights>::try_parse"]),
                         ("en_passant_field", "en-passant square (all 64)", ["<Square as TryFrom<&str>>::try_from"]),
                         ("clock_fields", "two clocks (three digits each, 000..999)", ["str::parse::<usize>"])]
    ] + [
        dict(name="c11_native_fields_exhaustive", backend="native", kind="bounded", tier="quick", crate=CORE, file="c11.rs",
             test="c11_native_fields_exhaustive", bound="native execution (not symbolic): 3 placements x 2 sides x all 16 castling sets x all 65 en-passant "
             "values x 8 clock pairs (0..65535), canonical spelling", desc="the REAL reader (regex included) returns exactly the components spelled and the "
             "REAL writer reproduces the text character for character", functions=["<Fen as TryFromNotation<State>>::try_from_notation",
             "<Fen as IntoNotation<State>>::into_notation"], timeout=1800),
        K("c11w", "c11_piece_letter_display_contract", desc="Display for PieceIndex through the real core::fmt: exactly one byte, the letter of the kind, "
          "upper case for White (the contract the extracted writer is compiled against)", functions=["<PieceIndex as Display>::fmt"], timeout=1500),
        K("c11w", "c11_mailbox_of_board_contract", desc="ArrayMap::<Square, PieceIndex>::from(&Board) (the mailbox view the writer starts from): at every square the piece "
          "standing there; fully symbolic position and square", functions=["<ArrayMap<Square, PieceIndex> as From<&Board>>::from", "Board::piece_at"], timeout=2400, heavy=True,
          unwindset_rules=[("piece_at", r"for piece in Piece::ALL", 8), ("piece_at", r"for color in Color::ALL", 3),
                                                 ("From<&board::Board>", r"for square in Square::ALL", 65),
                                                 ("Board::new", r"for \w+ in Piece::ALL", 8), ("Board::new", r"for \w+ in Color::ALL", 3)]),
        K("c11w", "c11_writer_fields_contract", desc="the FEN WRITER (whole body extracted verbatim, write! bound to a byte sink): for both sides, all 16 castling "
          "sets, every en-passant target or none and both clocks (std's decimal text kept abstract) the written line is the canonical line byte for byte "
          "(placement: two kings)",
          functions=["<Fen as IntoNotation<State>>::into_notation (body, extracted)"], timeout=3000, heavy=True, unwindset_rules=WRITER_LOOPS),
    ] + [
        K("c11w", "c11_writer_placement_rank_%d" % r, kind="bounded", bound="rank %d fully symbolic (13^8 contents), the other seven ranks empty" % r,
          desc="the FEN WRITER's placement field: pieces as letters, runs of empty squares merged into one digit, '/' between ranks, ranks 8 to 1",
          functions=["<Fen as IntoNotation<State>>::into_notation (body, extracted)"], timeout=3000, heavy=True, tier=("quick" if r in (1, 8) else "thorough"), unwindset_rules=WRITER_LOOPS)
        for r in range(1, 9)
    ] + [
        K("c11w", "c11_writer_placement_ranks_%s" % r, kind="bounded", bound="two adjacent ranks fully symbolic, the other six empty",
          desc="the FEN WRITER's placement field across a rank boundary (the run of empty squares is not carried over)",
          functions=["<Fen as IntoNotation<State>>::into_notation (body, extracted)"], timeout=5400, heavy=True, tier="thorough", unwindset_rules=WRITER_LOOPS)
        for r in ["1_2", "4_5", "7_8"]
    ] + [
        K("c11", "c11_castling_field_write_and_read_back", tier="experimental", desc="both sides, all 16 castling sets: the writer emits exactly the canonical line "
          "(KQkq order or '-'; whole line compared byte by byte) and the castling-field parser reads the written field back to the same "
          "rights", functions=["<Fen as IntoNotation<State>>::into_notation", "ArrayMap<Color,CastleRights>::try_parse"], timeout=5400, heavy=True),
        K("c11", "c11_en_passant_field_write_and_read_back", tier="experimental", desc="every en-passant target or '-': written as the square name and read back by "
          "Square::try_from to the same square", functions=["<Fen as IntoNotation<State>>::into_notation", "<Square as TryFrom<&str>>::try_from",
          "Display for Square"], timeout=5400, heavy=True),
    ] + [
        K("c11", "c11_placement_parse_rank_%d" % r, kind="bounded", bound="one fully symbolic rank (rank %d), the other seven empty" % r,
          desc="Board::try_parse of the canonical placement text returns exactly that placement", functions=["Board::try_parse", "PieceIndex::try_parse"],
          timeout=3000, tier="thorough", heavy=True)
        for r in [1, 4, 8]
    ],
    assumptions=["Regex::captures delivers the six groups of FEN_REGEX (external crate, not executable symbolically)",
                 "usize Display / str::parse round-trip for the two counters (std); the obligations fix the clocks to 0 and 1",
                 "equality of legal moves, hash and evaluation after a round trip follows from equality of the five state components "
                 "(those functions read nothing else)"],
    not_claimed=["the FEN writer through core::fmt itself (about 40 write! calls through function-pointer dispatch: 90 minutes / 12 GB): the writer's body is "
                 "proved with write! bound to a byte sink instead (kani/c11_writer.rs); the clocks' decimal text is std's (kept abstract)",
                 "the writer's placement field with more than two symbolic ranks at once (one rank at a time: quick ranks 1 and 8, thorough all eight and three "
                 "pairs of adjacent ranks)",
                 "cross-rank interaction of the parser's u8 cursor beyond one symbolic rank"],
    technique="Kani/CBMC: FEN reader tail and FEN writer body (both extracted verbatim) against a byte-level spec of the canonical text; field parsers as inverses",
    level_text="Proof for the READER: the function tail after the regex gate (extracted verbatim every run) returns exactly the spelled "
               "side, castling set (all 16), en-passant square (all 64 or none) and clocks (000..999); the castling-field parser "
               "inverts the canonical spelling; Square text round-trips. Proof for the WRITER: its whole body (extracted verbatim, write! bound to a "
               "byte sink, the mailbox conversion and the Display impls it calls bound to their separately proved contracts) writes the canonical line "
               "byte for byte for every side, castling set, en-passant target and clock pair, and the canonical placement text one fully symbolic rank "
               "at a time. The regex gate and the text of the decimal counters are std/external: covered by the native exhaustive stand-in.",
    level_note="Regex gate assumed in the proof obligations (exercised natively in the stand-in). The writer is proved against a byte sink, not through "
               "core::fmt's Formatter (whose flags it does not use); placement: one symbolic rank at a time in both directions.",
)

PROPS["C10"] = dict(
    obligations=[
        K("c10", "c10_is_check_contract", desc="Board::is_check(c) <=> king(c) on a square of colored_attacks(!c); State::is_check is that for "
          "the side to move; fully symbolic position, arbitrary attacked sets, loop-free", functions=["Board::is_check", "State::is_check"]),
        K("c10", "c10_from_occupancy_spike", kind="bounded", bound="<= 3 pieces per kind and colour; attack function = one symbolic spike",
          unwindset_rules=[("from_occupancy", r"occupancy\.pop\(\)", 4, 0)],
          desc="AttackMap::from_occupancy with A = X at one symbolic (piece, square, occupancy) and 0 elsewhere: all == X & !own exactly when that "
          "piece stands there and the board's occupancy is passed, empty otherwise; pawn map likewise for pawns",
          functions=["AttackMap::from_occupancy", "BitBoard::pop"], timeout=1800),
        K("c10", "c10_from_occupancy_spike_10", desc="same with <= 10 pieces per kind and colour -- the maximum in a legal position, so complete "
          "under valid_board", functions=["AttackMap::from_occupancy"], timeout=5400, tier="thorough", heavy=True),
        K("c10", "c10_board_queries_quick", kind="bounded", bound="<= 3 pieces per kind and colour; spike attack function; one colour",
          unwindset_rules=[("from_occupancy", r"occupancy\.pop\(\)", 4, 0)], desc="colored_attacks "
          "and is_check give the same answers on a board, on a clone taken before any query and on a clone taken after (fresh computation "
          "vs. copied cache)", functions=["Board::{attack_map,colored_attacks,is_check,new,clone}"], timeout=1800),
        K("c10", "c10_successor_answers_are_fresh", kind="bounded", bound="<= 2 pieces per kind and colour; spike attack function; every move class",
          unwindset_rules=[("from_occupancy", r"occupancy\.pop\(\)", 4, 0)],  # a promotion can add a third piece of a kind
          desc="the board of the position reached by State::by_performing_move answers colored_attacks / colored_pawn_attacks / is_check exactly as a "
          "board built from scratch from the successor's placement, whatever had been asked of (and cached in) the parent before the move",
          functions=["State::by_performing_move", "Board::{new,attack_map,colored_attacks,colored_pawn_attacks,is_check}"], timeout=3600, heavy=True, mem_gb=24),
        K("c10", "c10_successor_answers_are_fresh_3", kind="bounded", bound="<= 3 pieces per kind and colour; spike attack function; every move class", tier="thorough",
          unwindset_rules=[("from_occupancy", r"occupancy\.pop\(\)", 5, 0)],
          desc="same as c10_successor_answers_are_fresh with up to three pieces per kind and colour",
          functions=["State::by_performing_move", "Board::{new,attack_map,colored_attacks,colored_pawn_attacks,is_check}"], timeout=3600, heavy=True, mem_gb=24),
        K("c10", "c10_board_queries_contract", tier="thorough", heavy=True, kind="bounded", bound="<= 5 pieces per kind and colour; spike attack function", desc="colored_attacks / "
          "colored_pawn_attacks == from_occupancy of the board's fields; is_check through the real cached maps; answers independent of "
          "query order and of cloning before/after", functions=["Board::{attack_map,colored_attacks,colored_pawn_attacks,is_check,new,clone}"], timeout=1800),
    ],
    assumptions=["no &mut access to Board's fields exists (fields private, no &mut self method, no unsafe in the crate: scanned)",
                 "the union formula for an ARBITRARY attack function is obtained from the spike obligations by the OR-structure of the loop "
                 "(each piece's attack set is ORed in exactly once with the right arguments and nothing else is): a direct check against a "
                 "64-square union spec did not finish in 30 minutes"],
    assumed_contracts=["AttackGenerator::compute == geometry (C09)"],
    technique="Kani/CBMC: AttackMap::from_occupancy and the lazily cached Board queries against an abstract attack function",
    level_text="Proof against an abstract attack function: is_check is 'king on a square attacked by the opponent' (complete, loop-free, "
               "arbitrary attacked sets); the attack map collects, for every own piece, exactly the callee's answer for (piece, square, "
               "board occupancy) minus own pieces and nothing else (spike attack function, fully symbolic positions), pawn map likewise; "
               "cached answers independent of query order and of cloning before/after, and the board of a position reached by a move answers as a "
               "freshly built board of its placement does. <= 10 pieces per kind (complete for legal positions) in the thorough tier.",
    level_note="Quick tier bounds piece counts to 3 per kind and colour (5 and 10, the legal maximum, in the thorough tier); the attack function "
               "is a symbolic spike (see assumptions).",
)

SAN = ["<San as TryFromNotation<MoveQuery>>::try_from_notation"]
PROPS["C12"] = dict(
    obligations=[
        K("c12", "c12_san_parser_inverts_spelling", desc="for every admissible SAN field tuple (piece letter or none, optional "
          "origin file/rank, optional x, destination, promotion with or without '=', optional +/#) the real parser returns "
          "a query with exactly those fields set (piece defaults to Pawn) and no other", functions=SAN, timeout=1500),
        K("c12", "c12_san_castles", desc="O-O / O-O-O with optional +/# parse to the castle query and nothing else", functions=SAN),
        K("c12", "c12_move_query_test_contract", desc="MoveQuery::test(m) <=> every set field agrees with m (promotion compared "
          "with promotion().unwrap_or(piece())), symbolic query x symbolic move", functions=["MoveQuery::test"]),
        K("c12", "c12_coordinate_query_contract", desc="a query built from origin/destination(/promotion) matches exactly the "
          "moves with those coordinates", functions=["MoveQuery::{new,set_origin,set_destination,set_promotion,by_moving_from_to,test}"]),
        K("c12", "c12_lan_writer_contract", desc="Lan writes origin, destination and the lower-case promotion letter, for every "
          "move value, through core::fmt", functions=["<Lan as IntoNotation<Move>>::into_notation", "Display for Square/File/Rank"],
          timeout=1500),
        K("c12", "c12_lan_line_writer_contract", kind="bounded", bound="lines of <= 2 arbitrary moves", tier="thorough", heavy=True, desc="Lan for a line of moves (the `info pv` line): the moves' "
          "coordinate texts in order, separated by single spaces, through core::fmt", functions=["<Lan as IntoNotation<&[Move]>>::into_notation"], timeout=2400),
        K("uci", "c12_uci_reader_inverts_lan", desc="the UCI move-token reader (closure body extracted verbatim from Client::exec) "
          "applied to the coordinate text of any move value returns the query with exactly that origin, destination and "
          "promotion, which matches the move", functions=["Client::exec move-token closure (extracted)"], timeout=1500),
        K("c12", "c12_moveset_find_contract", kind="bounded", bound="move lists of <= 3 arbitrary moves", desc="MoveSet::find(query): the first move of the list the query matches, "
          "with its own successor; None exactly when no move matches", functions=["MoveSet::find"], timeout=2400),
        K("uci", "c12_uci_bestmove_line_contract", desc="the `bestmove` line of the UCI writer thread (statement extracted verbatim from Search::spawn, "
          "println! bound to a buffer): for every move value it prints exactly `bestmove ` + origin + destination + lower-case promotion letter + "
          "newline -- the text the UCI move-token reader maps back to that move", functions=["Search::spawn writer closure, bestmove statement (extracted)"],
          timeout=2400),
    ],
    assumptions=[],
    technique="Kani/CBMC: SAN parser proved to invert a spec writer on every field tuple; MoveQuery::test and MoveSet::find contracts; Lan writer "
              "through core::fmt; UCI reader closure and the bestmove statement extracted verbatim (reader inverts Lan; bestmove prints Lan's text)",
    level_text="Proof, complete on the finite spelling domain: every admissible SAN field tuple is written by an in-harness spec "
               "writer and the real parser must return exactly those fields; MoveQuery::test is proved equivalent to field-wise "
               "agreement for symbolic query x symbolic move; so parse(SAN).test(m') <=> m' agrees with every spelled field. "
               "Uniqueness among legal moves is C01's business.",
    level_note="'matches no other legal move' relies on the spelling being admissible (its fields single out the move) and on C01. "
               "Trusted: Kani/CBMC, the textual closure extractor (verbatim comparison).",
)
PROPS["C14"] = dict(
    obligations=[
        K("c12", "c14_san_total_8", kind="bounded", bound="<= 8 bytes", desc="San parser: no panic/overflow on every string of <= 8 bytes (ASCII plus one arbitrary "
          "wide char anywhere)", functions=SAN, timeout=1500),
        K("c12", "c14_san_total_14", desc="same for <= 14 bytes: the parser consumes at most 11 chars before its 'no more characters' "
          "test rejects, so longer inputs add no behaviour", tier="thorough", functions=SAN, timeout=3000, heavy=True),
        K("c12", "c14_square_file_rank_total", desc="File/Rank::from_char total and exact on all chars; Square::try_from(&str) total on "
          "strings of <= 4 bytes", functions=["File::from_char", "Rank::from_char", "<Square as TryFrom<&str>>::try_from"]),
        K("c14", "c14_fen_board_parser_cursor_40", desc="Board::try_parse cursor loop: no panic and no u8 overflow on every string of "
          "<= 40 chars over the regex alphabet (32 digits are needed to overflow an unchecked cursor); the trailing Board::from "
          "is cut off here and proved separately", functions=["Board::try_parse"], timeout=2400, kani_args=["--no-unwinding-checks"]),
        K("c14", "c14_fen_board_from_map_total", desc="Board::from(&map) is total and places the pieces of the map", functions=["<Board as From<&ArrayMap<Square,PieceIndex>>>::from"],
          timeout=1500),
        K("c14", "c14_fen_castle_field_total", desc="castle-field parser total on <= 5 ASCII bytes", functions=["ArrayMap<Color,CastleRights>::try_parse"]),
        K("c14", "c14_fen_piece_letter_total", desc="PieceIndex::try_parse total and exact on all chars", functions=["PieceIndex::try_parse"]),
        K("c11", "c11_reader_en_passant_field_contract", desc="(shared with C11) the FEN reader after its regex gate (function tail extracted verbatim), every en-passant "
          "field the regex admits (all 64 squares, both sides to move): no panic, exactly the spelled square", functions=["<Fen as TryFromNotation<State>>::try_from_notation (after Regex::captures)"], timeout=2400),
        K("c11", "c11_reader_dashes_contract", desc="(shared with C11) the reader tail on the dash forms: no panic", functions=["<Fen as TryFromNotation<State>>::try_from_notation (after Regex::captures)"], timeout=2400),
        K("c11", "c11_reader_clock_fields_contract", desc="(shared with C11) the reader tail on three-digit clocks: no panic, exactly the spelled numbers",
          functions=["<Fen as TryFromNotation<State>>::try_from_notation (after Regex::captures)"], timeout=2400),
        K("uci", "c14_uci_go_args_total", kind="bounded", bound="<= 3 argument tokens: keyword or 2 arbitrary ASCII bytes, value of <= 2 ASCII bytes, 1 more byte",
          desc="the argument parser of the `go` arm (block extracted verbatim from Client::exec, println! bound to a buffer): total on arbitrary tokens; "
          "`depth N` / `movetime N` with decimal N set exactly those limits", functions=["Client::exec, `go` argument parser (extracted)"], timeout=3000,
          tier="experimental", heavy=True),
        K("uci", "c14_uci_token_total", desc="the UCI move-token reader (extracted verbatim) is total on every string of <= 8 "
          "bytes, ASCII plus one arbitrary wide char anywhere (it inspects bytes 0..4 and the 5th char only)", functions=["Client::exec move-token closure (extracted)"],
          timeout=1500),
    ],
    assumptions=[],
    technique="Kani/CBMC: panic/overflow freedom of every function the UCI loop hands user text to, on symbolic strings with "
              "stated length bounds",
    level_text="Proof with stated bounds: San parser, FEN placement/castle/piece parsers, Square/File/Rank readers and the UCI "
               "move-token reader (extracted verbatim) are executed on symbolic text and shown free of panics and arithmetic "
               "overflow; string length is bounded per obligation (bounds chosen above the point after which the code can "
               "show no new behaviour).",
    level_note="Not claimed: process liveness (the stdin loop with threads). Regex::captures and std integer parsing are assumed "
               "total. Strings are ASCII plus at most one arbitrary wide char at an arbitrary position.",
)

def V(name, fns, desc, **kw):
    o = dict(name=name, backend="verus", kind="verus", tier="quick", desc=desc, functions=fns, verus_fns=[f.split("::")[-1] for f in fns],
             file="tt_contracts.rs")
    o.update(kw)
    return o


PROPS["C15"] = dict(
    obligations=[
        K("c15", "c15_bucket_empty_wf", desc="empty bucket satisfies the invariant, holds nothing", functions=["TranspositionBucket::empty"]),
        K("c15", "c15_bucket_find_contract", desc="find(h) == the entry stored under exactly h, or None; fully symbolic 8 slots",
          functions=["TranspositionBucket::find"]),
        K("c15", "c15_bucket_insert_contract", desc="insert_or_replace: find(h)==e afterwards; other keys kept unless Replaced "
          "(bucket full, h absent, exactly one victim); Inserted <=> count+1; invariant preserved; fully symbolic 8 slots",
          functions=["TranspositionBucket::insert_or_replace", "TranspositionInsertionResult::inserted"]),
        K("c15r", "c15_access_insert_routes_by_key", desc="TranspositionTableAccess::insert (verbatim, against a sequential lock model and the table's "
          "contract): for every table count 1..=8 (thorough: 1..=128), key and entry exactly one sub-table is written, it is sub-table hash mod n, and it receives "
          "the full 64-bit key and the entry unchanged", functions=["TranspositionTableAccess::insert"], timeout=1800),
        K("c15r", "c15_access_find_routes_by_key", desc="TranspositionTableAccess::find: asks the same sub-table (hash mod n) for exactly the full key and "
          "returns a copy of its answer; nothing is written", functions=["TranspositionTableAccess::find"], timeout=1800),
        K("c15r", "c15_access_constructor_then_insert_and_find", kind="bounded", bound="<= 4 sub-tables", tier="experimental", desc="with_tables (verbatim) followed by insert and find: "
          "the constructed value routes by the full key to sub-table hash mod n", functions=["TranspositionTableAccess::with_tables", "TranspositionTableAccess::insert",
          "TranspositionTableAccess::find"], timeout=2400, heavy=True),
        K("c15r", "c15_access_routes_by_key_32", kind="bounded", bound="<= 32 sub-tables", tier="experimental", desc="insert and find route by the full key to sub-table hash mod n for "
          "every table count 1..=32", functions=["TranspositionTableAccess::insert", "TranspositionTableAccess::find"], timeout=3000, heavy=True),
        K("c15r", "c15_access_counts_are_sums", kind="bounded", bound="<= 8 sub-tables", desc="entries()/max_entries() are the sums of the sub-tables' answers, each "
          "sub-table counted once", functions=["TranspositionTableAccess::entries", "TranspositionTableAccess::max_entries"], timeout=1800),
        V("c15_table_find", ["TranspositionTable::find"], "Verus, Vec of any length: find(h) == view(h), reads only bucket h % len"),
        V("c15_table_insert", ["TranspositionTable::insert", "lemma_sum_update", "lemma_sum_strict", "lemma_sum_bound"],
          "Verus, Vec of any length: insert preserves wf (used_slots == sum of occupied, no overflow), establishes "
          "get(h)==Some(e), changes only bucket h % len, other keys kept unless displaced from the full bucket"),
        V("c15_table_entries", ["TranspositionTable::entries", "TranspositionTable::max_entries", "TranspositionInsertionResult::inserted"],
          "Verus: entries == number of occupied slots <= max_entries == 8*len"),
        V("c15_verus_canaries", [], "three must-fail lemmas (requires <precondition> ensures false) do fail", canary=True),
    ],
    assumptions=[
        "each operation holds the RwLock of its sub-table for its whole duration (every access is self.tables[i].write()/read()"
        ".unwrap().<op>), std::sync::RwLock is correct, no unsafe: concurrent histories are linearised per sub-table; "
        "entries() across sub-tables is not an atomic snapshot -- concurrency is ASSUMED, not proved",
        "the Verus prelude restates the Kani-proved bucket contract (find / insert_or_replace) as assume_specification-style "
        "external_body specs; consistency of the two statements is by review",
        "bucket count > 0 and 8*len <= usize::MAX (requires; the property's quantifier starts at 1)",
        "routing layer: std::sync::RwLock is replaced by a sequential model (RefCell: read()/write() succeed and give shared/exclusive access, a "
        "conflicting access on the one thread panics); sub-table counts 1..=8 (production uses 128; the index expression `hash as usize % len` "
        "is loop-free and the same in insert and find)",
    ],
    assumed_contracts=["TranspositionBucket::{find,insert_or_replace} in Verus = the contract Kani proves (c15_bucket_*)"],
    not_claimed=["behaviour under real thread interleavings (assumed via lock discipline)",
                 "std::sync::RwLock itself: the routing layer is verified against a sequential model of the lock (a harness through the real "
                 "futex-based RwLock exhausted the 12 GB cap in CBMC even for 2 sub-tables x 2 buckets)"],
    technique="Kani/CBMC contract proof of the 8-slot bucket over fully symbolic content + Verus proof of the table over a Vec of "
              "any length on verbatim function bodies + Kani routing contract of the access layer (verbatim, sequential lock model)",
    level_text="Proof: the bucket contract is decided completely (all 8 slots, keys and entries symbolic); the table contract "
               "(representation invariant used_slots == number of occupied slots, lookup returns the entry under exactly that "
               "key, frame and displacement clauses) is proved by Verus for every bucket count on the verbatim bodies of "
               "find/insert/entries/max_entries; the access layer routes insert and find of a key to the same sub-table with the full key "
               "(1..=8 sub-tables, sequential lock model); histories follow by induction over these contracts.",
    level_note="Concurrency is assumed through the lock discipline, not proved. The routing layer (insert/find/entries/max_entries of "
               "TranspositionTableAccess, verbatim) is verified against a sequential model of RwLock and the table's contract, for 1..=8 sub-tables.",
)

PROPS["C18"] = dict(
    obligations=[
        K("c18", "c18_ucinewgame_clears_search_memory", desc="the `ucinewgame` arm of Client::exec (body extracted verbatim; the running search's type "
          "abstracted to its wait_cancel signature): whatever the session state before, afterwards no search is running, a running search was "
          "stopped and joined exactly once, and NO search memory (previous_artifact) is left -- the state of a freshly started process",
          functions=["Client::exec, arm `ucinewgame` (extracted)"]),
    ],
    assumptions=["a fresh process starts its command loop with `current_search = None` and `previous_artifact = None`, and the `go` arm hands "
                 "`previous_artifact.take()` to Search::spawn (both are textual anchors checked on every run: lost anchor => undecided)",
                 "Searcher::analyze_iterative with `previous_artifact == None` builds a fresh hasher, transposition table and StateHistory "
                 "(`previous_artifact.map(..).unwrap_or_else(<fresh>)`; by reading -- any harness reaching it crashes the Kani compiler)",
                 "the session's other loop-local state (current_position, the book, the thread RNG) is not search memory: the position is "
                 "set by `position`, the book is immutable, the RNG is OS-seeded in every process"],
    assumed_contracts=["Search::wait_cancel(self) -> SearchArtifact stops and joins the search (threads; not verified)"],
    not_claimed=["equality of the engine's *answers* with those of a fresh process as an end-to-end statement about the threaded search: what is "
                 "proved is that the command leaves exactly the fresh-process session state, from which equal behaviour follows because "
                 "the search reads nothing else"],
    trusted=["the textual arm extractor (verbatim; lost anchor => exit 2)"],
    anchors=[("weechess-engine/src/uci.rs", r"let mut current_search: Option<Search> = None;"),
             ("weechess-engine/src/uci.rs", r"let mut previous_artifact = None;"),
             ("weechess-engine/src/uci.rs", r"^\s*previous_artifact\.take\(\),\s*$")],
    technique="Kani/CBMC: contract on the `ucinewgame` arm of the UCI loop, extracted verbatim, with the running search abstracted to the "
              "signature of wait_cancel",
    level_text="Proof of the command's effect on the session state: the arm's verbatim body is executed symbolically for every combination of "
               "'search running' and 'memory already collected'; afterwards nothing runs and no memory is left, which is the state a fresh "
               "process starts from.",
    level_note="The threaded search itself is not verified; that a search started with no artifact is fresh is by reading "
               "(analyze_iterative). Trusted: Kani/CBMC, the extractor.",
)

PROPS["C20"].update(
    technique="Kani/CBMC: constructor/accessor contracts discharged by loop-free harnesses over the whole attribute "
              "domain; Kani function contracts on the bit-field primitives",
    level_text="Proof, complete: every obligation is a loop-free symbolic execution of the real constructors, accessors, "
               "derived PartialEq and derived serde impls over the entire attribute domain (all colours, kinds, 64x64 "
               "squares, capture and promotion kinds), so the quantifier of the property is decided exhaustively by the "
               "solver rather than sampled.",
    level_note="Assumes ciborium's u32 wire encoding round-trips (the derived impls are driven through an in-harness "
               "serializer that records one u32). Trusted: Kani/CBMC, rustc, the injector.",
)

# Properties this technique family cannot decide here (DESIGN.md section 5), plus properties whose check is not
# built yet (removed from this table as soon as the check is registered).
NOT_APPLICABLE = {
    "C04": "termination / prompt Stop / no panic of the whole multi-threaded search: liveness and wall-clock latency "
           "across rayon, mpsc and spawned threads; no function contract expresses it and Kani has no scheduler",
    "C06": "game-theoretic soundness/completeness of the alpha-beta search with transposition bounds, extensions, "
           "quiescence and lazy-SMP merge: a whole-recursion, whole-schedule property, not a contract on a function",
    "C07": "process-level UCI protocol over stdin/stdout with writer and timer threads; the function-level parts are "
           "claimed under C02, C12 and C14",
    "C16": "book content is a concrete computation over 132 corpus files inside build.rs and 'never answers for another "
           "position' is true only up to 64-bit hash collisions: not a deterministic postcondition of lookup",
    "C19": "2-safety over the whole multi-threaded search; the verifier abstracts exactly the nondeterminism sources "
           "(OS randomness, scheduling, RandomState) the property is about",
}
_PENDING = "check under construction in this commit of /verif; not claimed yet (see DESIGN.md section 4 for the plan)"
for _p in []:
    NOT_APPLICABLE.setdefault(_p, _PENDING)
