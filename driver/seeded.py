#!/usr/bin/env python3
"""Evaluate seeded changes.

  driver/seeded.py confirm <dir> <worktree>   apply patch in the worktree, run suite (must pass), run demo (must fail),
                                              revert, run demo (must pass); writes <dir>/confirm.txt
  driver/seeded.py check <dir> [tier]         apply patch to a scratch copy of /repo (never /repo itself), run the
                                              property's check on it, write <dir>/check_result.txt
"""
import json
import os
import shutil
import subprocess
import sys

VERIF = os.path.dirname(os.path.dirname(os.path.abspath(__file__)))


def sh(cmd, cwd=None, timeout=3600):
    p = subprocess.run(cmd, shell=True, cwd=cwd, capture_output=True, text=True, timeout=timeout)
    return p.returncode, p.stdout + p.stderr


def demo_cmd(meta, d, wt):
    loc = meta.get("demo_location", "")
    demo = os.path.join(d, "demo.rs")
    if "weechess-core/tests" in loc or "weechess-engine/tests" in loc or "tests/" in loc:
        crate = "weechess-engine" if "engine" in loc else "weechess-core"
        os.makedirs(os.path.join(wt, crate, "tests"), exist_ok=True)
        shutil.copy(demo, os.path.join(wt, crate, "tests", "seeded_demo.rs"))
        pkg = "weechess_engine" if crate == "weechess-engine" else "weechess_core"
        return "cargo test -p %s --offline --test seeded_demo" % pkg, [os.path.join(wt, crate, "tests", "seeded_demo.rs")], None
    # snippet appended to a source file
    import re
    m = re.search(r"(weechess-[a-z]+/src/[\w/]+\.rs)", loc)
    src = os.path.join(wt, m.group(1))
    pkg = "weechess_engine" if "engine" in m.group(1) else "weechess_core"
    mm = re.search(r"mod\s+(\w+)", open(demo).read())
    filt = mm.group(1) if mm else "seeded"
    return "cargo test -p %s --offline --lib %s" % (pkg, filt), [], (src, open(demo).read())


def confirm(d, wt):
    meta = json.load(open(os.path.join(d, "meta.json")))
    out = []
    sh("git checkout -- . && git clean -fdq -e target", wt)
    rc, o = sh("git apply %s" % os.path.join(d, "patch.diff"), wt)
    out.append("apply rc=%d" % rc)
    rc, o = sh("cargo test --workspace --offline --no-fail-fast 2>&1 | grep -E '^test result|FAILED'", wt)
    suite_ok = "FAILED" not in o and o.count("test result: ok") >= 3
    out.append("suite with patch: %s\n%s" % ("PASS" if suite_ok else "FAIL", o))
    cmd, files, snippet = demo_cmd(meta, d, wt)
    if snippet:
        with open(snippet[0], "a") as f:
            f.write("\n" + snippet[1] + "\n")
    rc1, o1 = sh(cmd + " 2>&1 | tail -15", wt)
    fails_with = "test result: FAILED" in o1
    out.append("demo with patch: %s" % ("FAILS (expected)" if fails_with else "does not fail\n" + o1))
    # revert only the patch
    sh("git apply -R %s" % os.path.join(d, "patch.diff"), wt)
    rc2, o2 = sh(cmd + " 2>&1 | tail -15", wt)
    passes_without = "test result: ok" in o2 and "FAILED" not in o2
    out.append("demo without patch: %s" % ("PASSES (expected)" if passes_without else "does not pass\n" + o2))
    sh("git checkout -- . && git clean -fdq -e target", wt)
    ok = suite_ok and fails_with and passes_without
    out.append("CONFIRMED" if ok else "NOT CONFIRMED")
    open(os.path.join(d, "confirm.txt"), "w").write("\n".join(out) + "\n")
    print(d, "CONFIRMED" if ok else "NOT CONFIRMED")
    return ok


def check(d, tier="quick", pid=None):
    meta = json.load(open(os.path.join(d, "meta.json")))
    primary = meta["property"]
    pid = pid or primary
    scratch = "/var/tmp/seedrun.%s.%s" % (os.path.basename(d.rstrip("/")), pid)
    shutil.rmtree(scratch, ignore_errors=True)
    sh("rsync -a --exclude target --exclude .git /repo/ %s/" % scratch)
    rc, o = sh("patch -p1 < %s" % os.path.join(d, "patch.diff"), scratch)
    if rc != 0:
        print("patch failed", o)
        return
    rc, o = sh("./check %s --tier %s --repo %s" % (pid, tier, scratch), VERIF, timeout=4 * 3600)
    shutil.rmtree(scratch, ignore_errors=True)
    lines = [l for l in o.split("\n") if l.startswith(("VIOLATION", "UNDECIDED", "KNOWN", "  failed obligation"))]
    verdict = {0: "MISSED (exit 0)", 1: "CAUGHT (exit 1)", 2: "UNDECIDED (exit 2)"}.get(rc, "rc=%d" % rc)
    name = "check_result.txt" if pid == primary else "check_result_%s.txt" % pid
    open(os.path.join(d, name), "w").write("%s tier=%s property=%s\n%s\n" % (verdict, tier, pid, "\n".join(lines)[:3000]))
    print(d, pid, verdict)
    for l in lines[:6]:
        print("   ", l[:200])


if __name__ == "__main__":
    sys.argv[2] = os.path.abspath(sys.argv[2])
    if sys.argv[1] == "confirm":
        confirm(sys.argv[2], sys.argv[3])
    else:
        check(sys.argv[2], *(sys.argv[3:5]))
