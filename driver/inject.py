"""Add-only annotation injector.

Every injection only ever ADDS whole lines to a copy of the repository; the driver re-checks that
with a diff afterwards (see assert_add_only).  An injection is keyed by (file, scope, fn):

  {"file": "weechess-core/src/moves.rs", "scope": "impl Move", "fn": "by_moving",
   "attrs": ["#[cfg_attr(kani, kani::requires(..))]", ...]}        -> lines put right above the fn
  {"file": "...", "scope": None, "mod": "verif_c20", "path": "c20.rs"}  -> `#[cfg(kani)] #[path] mod` appended at
                                                                            the end of the file
  {"file": "...", "scope": "mod data", "mod": ..., "path": ...}       -> same, before the closing brace of the scope
  {"file": "...", "crate_attr": "#![cfg_attr(kani, feature(..))]"}    -> crate attribute at the top of the file

A missing anchor raises LostAnchor (the driver turns that into exit 2, never into a VIOLATION).
"""
import difflib
import os
import re


class LostAnchor(Exception):
    pass


def _strip_strings_and_comments(line):
    # good enough for brace matching in this code base: remove // comments, string and char literals
    line = re.sub(r'"(\\.|[^"\\])*"', '""', line)
    line = re.sub(r"'(\\.|[^'\\])'", "' '", line)
    line = re.sub(r"//.*$", "", line)
    return line


def find_scope(lines, header, start=0, end=None):
    """Return (first_line_idx, last_line_idx) of the item whose header line matches `header`
    (a literal prefix such as 'impl Move' or 'mod data', matched after optional `pub`)."""
    end = len(lines) if end is None else end
    pat = re.compile(r"^\s*(pub(\([^)]*\))?\s+)?" + re.escape(header) + r"(\s|<|\{)")
    for i in range(start, end):
        if pat.match(lines[i]):
            depth = 0
            seen = False
            for j in range(i, end):
                s = _strip_strings_and_comments(lines[j])
                for ch in s:
                    if ch == "{":
                        depth += 1
                        seen = True
                    elif ch == "}":
                        depth -= 1
                if seen and depth == 0:
                    return i, j
            raise LostAnchor("unbalanced braces after %r" % header)
    raise LostAnchor("scope %r not found" % header)


def find_fn(lines, name, start, end):
    pat = re.compile(r"^\s*(pub(\([^)]*\))?\s+)?(const\s+)?fn\s+" + re.escape(name) + r"\s*[<(]")
    hits = [i for i in range(start, end + 1) if pat.match(lines[i])]
    if len(hits) != 1:
        raise LostAnchor("fn %r: %d matches in scope" % (name, len(hits)))
    return hits[0]


def fn_extent(lines, idx):
    """Lines [idx, last] of the fn item starting at idx (brace matched)."""
    depth = 0
    seen = False
    for j in range(idx, len(lines)):
        s = _strip_strings_and_comments(lines[j])
        for ch in s:
            if ch == "{":
                depth += 1
                seen = True
            elif ch == "}":
                depth -= 1
        if seen and depth == 0:
            return idx, j
    raise LostAnchor("unbalanced fn at line %d" % idx)


def apply_injections(root, injections, harness_dir):
    """Apply all injections to the tree under `root`. Returns number of added lines."""
    by_file = {}
    for inj in injections:
        by_file.setdefault(inj["file"], []).append(inj)
    added_total = 0
    for rel, injs in by_file.items():
        path = os.path.join(root, rel)
        if not os.path.exists(path):
            raise LostAnchor("file %s missing" % rel)
        with open(path) as f:
            lines = f.read().split("\n")
        # compute insert positions against the ORIGINAL text, then apply bottom-up
        inserts = []  # (index_before_which_to_insert, [lines])
        for inj in injs:
            try:
                if "crate_attr" in inj:
                    inserts.append((0, [inj["crate_attr"]]))
                    continue
                if inj.get("scope"):
                    scopes = inj["scope"] if isinstance(inj["scope"], list) else [inj["scope"]]
                    s, e = 0, len(lines) - 1
                    for sc in scopes:
                        s, e = find_scope(lines, sc, s, e + 1)
                else:
                    s, e = 0, len(lines) - 1
                if "fn" in inj:
                    i = find_fn(lines, inj["fn"], s, e)
                    indent = re.match(r"^\s*", lines[i]).group(0)
                    inserts.append((i, [indent + a for a in inj["attrs"]]))
                elif "mod" in inj:
                    text = '#[cfg(kani)] #[path = "%s"] mod %s;' % (
                        os.path.join(harness_dir, inj["path"]), inj["mod"])
                    if inj.get("pub"):
                        text = text.replace("] mod ", "] pub mod ")
                    if inj.get("scope"):
                        inserts.append((e, ["    " + text]))
                    else:
                        inserts.append((len(lines), [text]))
                else:
                    raise LostAnchor("bad injection %r" % inj)
            except LostAnchor as ex:
                raise LostAnchor("%s: %s" % (rel, ex))
        for pos, new in sorted(inserts, key=lambda t: -t[0]):
            lines[pos:pos] = new
            added_total += len(new)
        with open(path, "w") as f:
            f.write("\n".join(lines))
    return added_total


def assert_add_only(orig_root, new_root, files):
    """Diff every touched file; fail if any line of the original was removed or changed."""
    added = 0
    for rel in files:
        with open(os.path.join(orig_root, rel)) as f:
            a = f.read().split("\n")
        with open(os.path.join(new_root, rel)) as f:
            b = f.read().split("\n")
        for tag, i1, i2, j1, j2 in difflib.SequenceMatcher(None, a, b, autojunk=False).get_opcodes():
            if tag == "equal":
                continue
            if tag == "insert":
                added += j2 - j1
                continue
            raise RuntimeError("injection is not add-only in %s (%s at %d)" % (rel, tag, i1))
    return added


def extract_fn_text(path, scopes, name):
    """Textual extraction of one fn item (used by the Verus splice and the UCI closure extractor)."""
    with open(path) as f:
        lines = f.read().split("\n")
    s, e = 0, len(lines) - 1
    for sc in scopes:
        s, e = find_scope(lines, sc, s, e + 1)
    i = find_fn(lines, name, s, e)
    a, b = fn_extent(lines, i)
    return "\n".join(lines[a:b + 1])


def list_fns(path, scopes):
    """Names of the fn items directly inside the (innermost) scope, in source order."""
    with open(path) as f:
        lines = f.read().split("\n")
    s, e = 0, len(lines) - 1
    for sc in scopes:
        s, e = find_scope(lines, sc, s, e + 1)
    indent = len(re.match(r"^\s*", lines[s]).group(0)) + 4
    pat = re.compile(r"^\s{%d}(pub(\([^)]*\))?\s+)?(const\s+)?fn\s+(\w+)\s*[<(]" % indent)
    return [m.group(4) for m in (pat.match(l) for l in lines[s:e + 1]) if m]


def extract_closure_body(path, marker):
    """Textual extraction of the body of a closure: from the line containing `marker` (which ends with `{`) to the
    line holding the matching `}`.  Returns (body_lines, first_line_no, last_line_no) -- the lines strictly between."""
    with open(path) as f:
        lines = f.read().split("\n")
    hits = [i for i, l in enumerate(lines) if marker in l]
    if len(hits) != 1:
        raise LostAnchor("closure marker %r: %d matches" % (marker, len(hits)))
    i = hits[0]
    depth = 0
    seen = False
    for j in range(i, len(lines)):
        s = _strip_strings_and_comments(lines[j])
        if j == i:
            s = s[s.index(marker.strip()[-1]) if False else s.rfind("{"):]
        for ch in s:
            if ch == "{":
                depth += 1
                seen = True
            elif ch == "}":
                depth -= 1
                if seen and depth == 0:
                    return lines[i + 1:j], i + 2, j
    raise LostAnchor("unbalanced closure after %r" % marker)


def extract_fn_range(path, scopes, fn_name, start_marker, end_marker):
    """Lines of fn `fn_name` from the line containing start_marker up to (not including) the line containing end_marker;
    each marker must match exactly one line of the fn.  Returns (lines, first_line_no, last_line_no)."""
    with open(path) as f:
        lines = f.read().split("\n")
    s, e = 0, len(lines) - 1
    for sc in scopes:
        s, e = find_scope(lines, sc, s, e + 1)
    i = find_fn(lines, fn_name, s, e)
    a, b = fn_extent(lines, i)
    h1 = [k for k in range(a, b + 1) if start_marker in lines[k]]
    h2 = [k for k in range(a, b + 1) if end_marker in lines[k]]
    if len(h1) != 1 or len(h2) != 1 or h2[0] <= h1[0]:
        raise LostAnchor("range markers %r (%d) .. %r (%d) in fn %s" % (start_marker, len(h1), end_marker, len(h2), fn_name))
    return lines[h1[0]:h2[0]], h1[0] + 1, h2[0]


def extract_fn_body(path, scopes, fn_name):
    """Lines strictly between the line that ends the signature of fn `fn_name` (the first line at or after `fn` whose code
    ends with `{`) and the fn's closing brace.  Returns (lines, first_line_no, last_line_no)."""
    with open(path) as f:
        lines = f.read().split("\n")
    s, e = 0, len(lines) - 1
    for sc in scopes:
        s, e = find_scope(lines, sc, s, e + 1)
    i = find_fn(lines, fn_name, s, e)
    a, b = fn_extent(lines, i)
    k = a
    while k <= b and not _strip_strings_and_comments(lines[k]).rstrip().endswith("{"):
        k += 1
    if k >= b:
        raise LostAnchor("fn %s: no body" % fn_name)
    return lines[k + 1:b], k + 2, b


def extract_fn_tail(path, scopes, fn_name, start_marker):
    """Lines of fn `fn_name` (inside `scopes`) from the line containing start_marker up to (not including) the fn's closing
    brace.  Returns (lines, first_line_no, last_line_no)."""
    with open(path) as f:
        lines = f.read().split("\n")
    s, e = 0, len(lines) - 1
    for sc in scopes:
        s, e = find_scope(lines, sc, s, e + 1)
    i = find_fn(lines, fn_name, s, e)
    a, b = fn_extent(lines, i)
    hits = [k for k in range(a, b + 1) if start_marker in lines[k]]
    if len(hits) != 1:
        raise LostAnchor("tail marker %r: %d matches in fn %s" % (start_marker, len(hits), fn_name))
    return lines[hits[0]:b], hits[0] + 1, b
