#!/bin/sh
# apply each /verif/mutants/<PID>_*.patch to a scratch copy of /repo (never /repo) and run the property's quick check on it;
# expected: exit 1 (VIOLATION).  Usage: driver/run_mutants.sh [patch[:only-substring] ...]
cd "$(dirname "$0")/.."
[ $# -eq 0 ] && set -- mutants/*.patch
for arg in "$@"; do
  m=${arg%%:*}; only=""; case "$arg" in *:*) only=${arg##*:};; esac
  name=$(basename "$m" .patch); pid=${name%%_*}
  s=/var/tmp/mutrun.$name; rm -rf $s; rsync -a --exclude target --exclude .git /repo/ $s/
  if ! (cd $s && patch -p1 -s < /verif/$m); then echo "$name PATCH-FAILED"; rm -rf $s; continue; fi
  if [ -n "$only" ]; then
    VERIF_NO_REPLAY=1 ./check $pid --repo $s --only "$only" > /var/tmp/mutrun.$name.log 2>&1; rc=$?
  else
    VERIF_NO_REPLAY=1 ./check $pid --repo $s > /var/tmp/mutrun.$name.log 2>&1; rc=$?
  fi
  echo "$name rc=$rc $(grep -h 'failed obligation' /var/tmp/mutrun.$name.log | sed 's/ -- .*//' | sort -u | tr '\n' ' ')"
  rm -rf $s
done
