#!/usr/bin/env python3
"""Driver: contract-based deductive verification of weechess-rs (Kani/CBMC + Verus).

  ./check <ID> [--tier quick|thorough] [--repo DIR] [--only SUBSTR] [--keep] [--jobs N]
  ./check replay <replay-file> [--repo DIR]
  ./check list

Exit codes: 0 every obligation of the property discharged (or a listed known finding);
            1 a VIOLATION line was printed;
            2 undecided (timeout, out of memory, unwinding assertion, lost anchor, vacuity alarm on the
              machinery) -- never a VIOLATION.
"""
import argparse
import concurrent.futures as cf
import hashlib
import json
import os
import re
import shutil
import signal
import subprocess
import sys
import threading
import time

HERE = os.path.dirname(os.path.abspath(__file__))
VERIF = os.path.dirname(HERE)
sys.path.insert(0, HERE)

import inject  # noqa: E402
import props  # noqa: E402
import verus_run  # noqa: E402

KANI_Z = ["-Z", "function-contracts", "-Z", "stubbing"]
ENV = dict(os.environ, CARGO_NET_OFFLINE="true", CARGO_TERM_COLOR="never")


def log(*a):
    print(*a, flush=True)


# ----------------------------------------------------------------------------------------------
# scratch copy + injection
# ----------------------------------------------------------------------------------------------

EXTRACTION_LOG = []


def prepare_scratch(repo, scratch, harness_files=None):
    """harness_files: the harness sources this run needs (None = all).  Only the harness groups they need (transitively) are
    injected and only the extractions those groups include are made."""
    kani_dir = os.path.join(VERIF, "kani")
    groups = props.needed_groups(harness_files, kani_dir) if harness_files is not None else None
    outs = props.needed_extraction_outs(groups, kani_dir) if groups is not None else None
    if os.path.exists(scratch):
        shutil.rmtree(scratch)
    os.makedirs(scratch)
    src = os.path.join(scratch, "src")
    subprocess.run(["rsync", "-a", "--exclude", "target", "--exclude", ".git", repo.rstrip("/") + "/", src + "/"],
                   check=True)
    hdir = os.path.join(scratch, "harness")
    shutil.copytree(os.path.join(VERIF, "kani"), hdir)
    # mechanical extractions (closure bodies that cannot be called as functions), verbatim, from the ORIGINAL text
    EXTRACTION_LOG.clear()
    for ex in props.EXTRACTS:
        if outs is not None and ex["out"] not in outs:
            continue
        if ex.get("kind") == "fns":
            EXTRACTION_LOG.append({"out": ex["out"], "from": ex["file"], "what": "fn items %s of %s, verbatim" % (ex["fns"], ", ".join(ex["scopes"])),
                                   "compiled_against": ex.get("substitute", "")})
            # whole fn items, verbatim, concatenated (compiled in the harness against a model of a dependency)
            with open(os.path.join(hdir, ex["out"]), "w") as f:
                f.write("// fn items extracted mechanically and verbatim from %s (%s)\n" % (ex["file"], ", ".join(ex["scopes"])))
                for item in ex.get("items", []):
                    # whole items (struct definitions), verbatim
                    lines_ = open(os.path.join(repo, ex["file"])).read().split("\n")
                    a_, b_ = inject.find_scope(lines_, item)
                    f.write("\n".join(lines_[a_:b_ + 1]) + "\n\n")
                f.write(ex.get("header", "") + "\n")
                names = ex["fns"]
                if names == "*":
                    # every fn item of the scope except the listed ones (so that a helper added to the impl is carried along)
                    names = [n for n in inject.list_fns(os.path.join(repo, ex["file"]), ex["scopes"]) if n not in ex.get("exclude", [])]
                    missing = [n for n in ex.get("require", []) if n not in names]
                    if missing:
                        raise inject.LostAnchor("fns %r not found in %s" % (missing, ex["scopes"]))
                for name in names:
                    f.write(inject.extract_fn_text(os.path.join(repo, ex["file"]), ex["scopes"], name) + "\n\n")
                f.write(ex.get("footer", "") + "\n")
            continue
        if ex.get("kind") == "fn_body":
            body, a, b = inject.extract_fn_body(os.path.join(repo, ex["file"]), ex["scopes"], ex["fn"])
            ex = dict(ex, marker="fn " + ex["fn"])
        elif ex.get("kind") == "fn_range":
            body, a, b = inject.extract_fn_range(os.path.join(repo, ex["file"]), ex["scopes"], ex["fn"], ex["marker"], ex["end_marker"])
        elif ex.get("kind") == "fn_tail":
            body, a, b = inject.extract_fn_tail(os.path.join(repo, ex["file"]), ex["scopes"], ex["fn"], ex["marker"])
        else:
            body, a, b = inject.extract_closure_body(os.path.join(repo, ex["file"]), ex["marker"])
        EXTRACTION_LOG.append({"out": ex["out"], "from": ex["file"], "what": "lines %d-%d (starting at `%s`), verbatim" % (a, b, ex["marker"].strip()),
                               "sha256": hashlib.sha256("\n".join(body).encode()).hexdigest(), "compiled_against": ex.get("substitute", "")})
        with open(os.path.join(hdir, ex["out"]), "w") as f:
            f.write("// extracted mechanically and verbatim from %s lines %d-%d (starting at `%s`)\n"
                    % (ex["file"], a, b, ex["marker"].strip()))
            f.write(ex["header"] + "\n" + "\n".join(body) + "\n" + ex.get("footer", "") + "}\n")
    injs = props.injections(groups)
    added = inject.apply_injections(src, injs, hdir)
    files = sorted({i["file"] for i in injs})
    added2 = inject.assert_add_only(repo, src, files)
    if added != added2:
        raise RuntimeError("add-only check: injected %d lines but diff shows %d" % (added, added2))
    sha = {}
    for rel in files:
        with open(os.path.join(repo, rel), "rb") as f:
            sha[rel] = hashlib.sha256(f.read()).hexdigest()
    return src, hdir, added, sha


# ----------------------------------------------------------------------------------------------
# running one Kani obligation
# ----------------------------------------------------------------------------------------------

def _rss_of_group(pgid):
    try:
        out = subprocess.run(["ps", "-o", "rss=", "-g", str(pgid)], capture_output=True, text=True).stdout
        return sum(int(x) for x in out.split()) * 1024
    except Exception:
        return 0


def run_limited(cmd, cwd, timeout, mem_cap, env=ENV):
    """Run cmd in its own session; kill the whole group on timeout or when the group RSS passes mem_cap."""
    t0 = time.time()
    p = subprocess.Popen(cmd, cwd=cwd, env=env, stdout=subprocess.PIPE, stderr=subprocess.STDOUT, text=True,
                         start_new_session=True)
    state = {"why": None, "peak": 0}

    def watchdog():
        while p.poll() is None:
            rss = _rss_of_group(p.pid)
            state["peak"] = max(state["peak"], rss)
            if time.time() - t0 > timeout:
                state["why"] = "timeout"
            elif mem_cap and rss > mem_cap:
                state["why"] = "memory"
            if state["why"]:
                try:
                    os.killpg(p.pid, signal.SIGKILL)
                except ProcessLookupError:
                    pass
                return
            time.sleep(1.0)

    th = threading.Thread(target=watchdog, daemon=True)
    th.start()
    out, _ = p.communicate()
    th.join(timeout=5)
    return {"rc": p.returncode, "out": out, "killed": state["why"], "wall": time.time() - t0,
            "peak_rss": state["peak"]}


CHECK_RE = re.compile(
    r"^Check (\d+): ([^\n]+)\n\s+- Status: (\S+)\n\s+- Description: \"(.*?)\"(?:\n\s+- Location: ([^\n]*))?\n(?=\n|Check |\Z|\S)",
    re.M | re.S)


def parse_kani(out):
    r = {"checks": [], "n_checks": 0, "n_failed": 0, "verdict": None, "covers": None, "time": None}
    for m in CHECK_RE.finditer(out):
        r["checks"].append({"id": m.group(2), "status": m.group(3), "desc": m.group(4), "loc": m.group(5) or ""})
    m = re.search(r"\*\* (\d+) of (\d+) failed", out)
    if m:
        r["n_failed"], r["n_checks"] = int(m.group(1)), int(m.group(2))
    m = re.search(r"\*\* (\d+) of (\d+) cover properties satisfied", out)
    if m:
        r["covers"] = (int(m.group(1)), int(m.group(2)))
    m = re.search(r"VERIFICATION:- (\w+)", out)
    if m:
        r["verdict"] = m.group(1)
    m = re.search(r"Verification Time: ([\d.]+)s", out)
    if m:
        r["time"] = float(m.group(1))
    return r


UNDECIDED_MARKERS = ("unwinding assertion", "unsupported", "is not currently supported by Kani",
                     "recursion unwinding assertion")


def classify(ob, res):
    """-> (status, detail) with status in discharged | violation | undecided"""
    if res["killed"]:
        return "undecided", "%s after %.0fs (peak rss %.1f GB)" % (res["killed"], res["wall"], res["peak_rss"] / 2**30)
    k = parse_kani(res["out"])
    res["parsed"] = k
    if k["verdict"] is None:
        tail = "\n".join(res["out"].strip().split("\n")[-15:])
        return "undecided", "no verdict from Kani (build error / lost anchor / crash):\n" + tail
    failed = [c for c in k["checks"] if c["status"] == "FAILURE"]
    if k["verdict"] == "FAILED" and not failed:
        # fall back to Kani's summary lines ("Failed Checks: <description>\n File: ...")
        for m in re.finditer(r"^Failed Checks: (.*?)\n File: ([^\n]*)", res["out"], re.M | re.S):
            failed.append({"id": "summary", "status": "FAILURE", "desc": m.group(1), "loc": m.group(2)})
    if k["verdict"] == "SUCCESSFUL":
        if k["n_checks"] == 0:
            return "undecided", "vacuity alarm: zero checks generated"
        if k["covers"] is None or k["covers"][0] != k["covers"][1] or k["covers"][1] == 0:
            return "undecided", "vacuity alarm: cover canaries %r" % (k["covers"],)
        return "discharged", "%d checks, %d/%d covers" % (k["n_checks"], k["covers"][0], k["covers"][1])
    real = [c for c in failed if not any(mk in c["desc"] for mk in UNDECIDED_MARKERS)
            and ".unwind" not in c["id"] and "unsupported_construct" not in c["id"]]
    if not real:
        if failed:
            return "undecided", "only unwinding/unsupported-construct checks failed: " + "; ".join(
                sorted({c["desc"] for c in failed})[:5])
        # FAILED with no failed check listed: e.g. cover-only harness or contract issue
        if k["covers"] and k["covers"][0] != k["covers"][1]:
            return "undecided", "vacuity alarm: cover canaries %r" % (k["covers"],)
        tail = "\n".join(res["out"].strip().split("\n")[-15:])
        return "undecided", "FAILED without a failed check:\n" + tail
    return "violation", "; ".join(sorted({"%s [%s]" % (c["desc"], c["loc"]) for c in real})[:6])


def kani_cmd(ob, extra=()):
    cmd = ["cargo", "kani", "-p", ob["crate"], "--harness", ob["harness"], "--exact", "--output-format=regular"]
    cmd += KANI_Z + list(ob.get("kani_args", [])) + list(extra)
    return cmd


LOOP_RE = re.compile(r"^Loop (\S+):\n\s+file (\S+) line (\d+) column \d+ function ([^\n]*)", re.M)


def resolve_unwindset(ob, src):
    """Per-loop unwinding bounds: Kani's #[kani::unwind] is one bound for every loop of the program; where that makes a
    harness intractable the obligation names loops by (function substring, regex on the loop's source line) and a bound.
    The loop ids are looked up on every run with `--cbmc-args --show-loops`; unwinding assertions stay on, so a bound
    that is too small is reported as undecided, never as a pass."""
    rules = ob.get("unwindset_rules")
    if not rules:
        return []
    res = run_limited(kani_cmd(ob, ["-Z", "unstable-options", "--output-format=old", "--cbmc-args", "--show-loops"])[:0] +
                      [c for c in kani_cmd(ob) if c != "--output-format=regular"] +
                      ["-Z", "unstable-options", "--output-format=old", "--cbmc-args", "--show-loops"], src, 900, 8 * 2**30)
    pairs = []
    for m in LOOP_RE.finditer(res["out"] or ""):
        lid, f, line, func = m.group(1), m.group(2), int(m.group(3)), m.group(4)
        for rule in rules:
            fsub, rx, bound = rule[0], rule[1], rule[2]
            # optional 4th element: the loop's index suffix in its function (CBMC reports the same source line for a
            # `for` loop and a `while let` nested directly inside it)
            if len(rule) > 3 and not lid.endswith(".%d" % rule[3]):
                continue
            if fsub in func or fsub in lid:
                path = f if os.path.isabs(f) else os.path.join(src, f)
                try:
                    text = open(path).read().split("\n")[line - 1]
                except Exception:
                    continue
                if re.search(rx, text):
                    pairs.append("%s:%d" % (lid, bound))
                    break
    if not pairs:
        return None
    return ["-Z", "unstable-options", "--cbmc-args", "--unwindset", ",".join(pairs)]


def lost_anchor(ob, src):
    """Obligation-level textual anchors: (file, regex, expected number of matching lines).  A contract that is only meaningful
    relative to a scheme implemented elsewhere (the look-up's index expression vs. the table fill loops) is reported as
    undecided, not as a violation, when that other text no longer has the shape the contract was written against."""
    for rel, rx, want in ob.get("anchors", []):
        try:
            n = sum(1 for l in open(os.path.join(src, rel)).read().split("\n") if re.search(rx, l))
        except OSError:
            n = -1
        if n != want:
            return "lost anchor: %r matches %d lines of %s (expected %d)" % (rx, n, rel, want)
    return None


def run_obligation(ob, src):
    la = lost_anchor(ob, src)
    if la:
        return {"ob": ob, "status": "undecided", "detail": la, "res": {"wall": 0.0, "out": "", "killed": None, "peak_rss": 0}}
    extra = resolve_unwindset(ob, src)
    if extra is None:
        return {"ob": ob, "status": "undecided", "detail": "lost anchor: no loop matched the unwindset rules",
                "res": {"wall": 0.0, "out": "", "killed": None, "peak_rss": 0}}
    ob = dict(ob, kani_args=list(ob.get("kani_args", [])) + extra) if extra else ob
    res = run_limited(kani_cmd(ob), src, ob.get("timeout", 900), ob.get("mem_gb", 12) * 2**30)
    status, detail = classify(ob, res)
    if status == "violation" and ob.get("lemma"):
        # a structural lemma on the way to the property (e.g. "this term is a sum with one summand per piece"): when it fails the
        # proof route is lost, but the property itself may well hold -- undecided, never an alarm
        status, detail = "undecided", "structural lemma no longer holds (proof route lost; not a counterexample to the property): " + detail
    try:  # raw verifier output of the last run of each obligation, for triage
        os.makedirs("/var/tmp/weechess-verif-side/last", exist_ok=True)
        with open("/var/tmp/weechess-verif-side/last/%s.log" % ob["name"], "w") as f:
            f.write(res.get("out") or "")
    except OSError:
        pass
    return {"ob": ob, "status": status, "detail": detail, "res": res}


# ----------------------------------------------------------------------------------------------
# replay of a counterexample against the real code
# ----------------------------------------------------------------------------------------------

PLAYBACK_RE = re.compile(r"```\n(.*?)```", re.S)


def strip_doc(test):
    """Kani puts the failed check's description into a doc comment; a multi-line description (an assert! over two lines)
    breaks out of the comment, so only the test item itself is pasted into the harness module."""
    i = test.find("#[test]")
    return test[i:] if i >= 0 else test


def make_replay(pid, ob, src, hdir, first_out, replay_dir):
    """Run concrete playback for the failed obligation; write the replay file; return (path, reproduced)."""
    os.makedirs(replay_dir, exist_ok=True)
    path = os.path.join(replay_dir, "%s.replay" % ob["name"])
    if os.environ.get("VERIF_NO_REPLAY"):
        # contract-validation runs (driver/run_mutants.sh) only need the verdict; the replay file then carries the
        # verifier output only and the VIOLATION line says no-failing-input-found
        res = {"out": "", "killed": "skipped (VERIF_NO_REPLAY)"}
    else:
        res = run_limited(kani_cmd(ob, ["-Z", "concrete-playback", "--concrete-playback=print"]), src,
                          ob.get("timeout", 900) * 3 + 600, 30 * 2**30)
    tests = []
    for blk in PLAYBACK_RE.findall(res["out"] or ""):
        if "concrete_playback_run" in blk and "Check for `cover`" not in blk:
            tests.append(blk)
    reproduced = False
    native_out = ""
    test_name = None
    if tests:
        test = tests[0]
        test_name = re.search(r"fn (kani_concrete_playback_\w+)", test).group(1)
        hfile = os.path.join(hdir, ob["file"])
        with open(hfile, "a") as f:
            f.write("\n#[cfg(test)]\nmod verif_playback_%s {\n    use super::*;\n%s\n}\n" % (ob["name"], strip_doc(test)))
        pb = run_limited(["cargo", "kani", "playback", "-Z", "concrete-playback", "-p", ob["crate"], "--",
                          test_name], src, 900, 16 * 2**30)
        native_out = pb["out"]
        # the native run of the harness body against the real code must fail (panic / failed assertion)
        reproduced = bool(re.search(r"test result: FAILED|panicked at", native_out or ""))
        if "has stubs which are not applied" in test:
            # Kani does not apply stubs in concrete playback: the native run executes different code than the proof,
            # so its outcome says nothing about the counterexample
            reproduced = False
            native_out = "(harness uses stubs: the native playback is not a replay of the verifier's counterexample)\n" + (native_out or "")
    doc = {
        "property": pid,
        "obligation": ob["name"],
        "harness": ob["harness"],
        "crate": ob["crate"],
        "harness_file": ob["file"],
        "functions": ob.get("functions", []),
        "failed_checks": [c for c in parse_kani(first_out)["checks"] if c["status"] == "FAILURE"][:20],
        "concrete_playback_test": tests[0] if tests else None,
        "test_name": test_name,
        "replayed_on_real_code": reproduced,
        "playback_generation": "killed: %s" % res["killed"] if res["killed"] else "ok",
        "native_output_tail": (native_out or "")[-4000:],
        "verifier_output_tail": (first_out or "")[-6000:],
        "how_to_replay": "./check replay %s" % path,
    }
    with open(path, "w") as f:
        json.dump(doc, f, indent=1)
    return path, reproduced


def cmd_replay(path, repo):
    with open(path) as f:
        doc = json.load(f)
    if not doc.get("concrete_playback_test"):
        log("replay file carries no concrete input (obligation %s): verifier output follows" % doc["obligation"])
        log(doc.get("verifier_output_tail", ""))
        return 1
    scratch = "/var/tmp/weechess-verif.replay.%d" % os.getpid()
    try:
        src, hdir, _, _ = prepare_scratch(repo, scratch, [doc["harness_file"]])
        hfile = os.path.join(hdir, doc["harness_file"])
        with open(hfile, "a") as f:
            f.write("\n#[cfg(test)]\nmod verif_playback_replay {\n    use super::*;\n%s\n}\n" %
                    strip_doc(doc["concrete_playback_test"]))
        pb = run_limited(["cargo", "kani", "playback", "-Z", "concrete-playback", "-p", doc["crate"], "--",
                          doc["test_name"]], src, 1800, 16 * 2**30)
        log(pb["out"][-6000:])
        failed = bool(re.search(r"test result: FAILED|panicked at", pb["out"] or ""))
        log("REPLAY %s: %s" % (doc["obligation"], "still fails on this tree" if failed else "passes on this tree"))
        return 1 if failed else 0
    finally:
        shutil.rmtree(scratch, ignore_errors=True)


# ----------------------------------------------------------------------------------------------
# known findings
# ----------------------------------------------------------------------------------------------

def load_known():
    known = []
    p = os.path.join(VERIF, "known_findings.txt")
    if os.path.exists(p):
        for line in open(p):
            line = line.strip()
            m = re.match(r"known: property=(\S+) obligation=(\S+) (.*)", line)
            if m:
                known.append({"property": m.group(1), "obligation": m.group(2), "what": m.group(3)})
    return known


# ----------------------------------------------------------------------------------------------
# mechanical scan for assumptions
# ----------------------------------------------------------------------------------------------

def scan_assumptions(pid, obs):
    files = sorted({o["file"] for o in obs if o.get("file")})
    found = {}
    pats = [r"kani::assume", r"kani::stub\b", r"stub_verified", r"external_body", r"assume_specification",
            r"\badmit\(", r"\bassume\("]
    for fn in files + ["spec.rs"]:
        for base in (os.path.join(VERIF, "kani"), os.path.join(VERIF, "verus")):
            p = os.path.join(base, fn)
            if not os.path.exists(p):
                continue
            txt = open(p).read()
            for pat in pats:
                n = len(re.findall(pat, txt))
                if n:
                    found["%s:%s" % (fn, pat)] = n
    return found


def scan_unsafe(repo):
    n = 0
    for crate in ("weechess-core", "weechess-engine"):
        for root, _, fs in os.walk(os.path.join(repo, crate, "src")):
            for fn in fs:
                if fn.endswith(".rs"):
                    n += len(re.findall(r"\bunsafe\b", open(os.path.join(root, fn)).read()))
    return n


# ----------------------------------------------------------------------------------------------
# main check
# ----------------------------------------------------------------------------------------------

def cmd_check(pid, tier, repo, only, keep, jobs):
    t0 = time.time()
    P = props.PROPS[pid]
    seed = int(os.environ.get("VERIF_SEED", "0") or 0)
    # tier "experimental": obligations that are written but not (yet) known to finish; only run when named with --only
    obs = [o for o in P["obligations"]
           if (o.get("tier", "quick") == "quick" or (tier == "thorough" and o.get("tier") == "thorough")
               or (only and o.get("tier") == "experimental"))]
    if only:
        obs = [o for o in obs if only in o["name"]]
    if not obs:
        log("UNDECIDED property=%s no obligation selected (tier %s, only %r): nothing was checked" % (pid, tier, only))
        return 2
    scratch = os.environ.get("VERIF_SCRATCH", "/var/tmp/weechess-verif.%s.%d" % (pid, os.getpid()))
    replay_dir = os.path.join(VERIF, "replays", pid)
    evidence_path = os.path.join(VERIF, "evidence", "%s.json" % pid)
    if os.path.realpath(repo) != "/repo" or only:
        # runs against a scratch copy (seeded changes, mutants) or partial runs (--only) must never overwrite the
        # evidence of the registered check, which is about /repo and about all obligations of the tier
        side = "/var/tmp/weechess-verif-side/%s" % (os.path.basename(os.path.realpath(repo).rstrip("/")) or "repo")
        replay_dir = os.path.join(side, "replays", pid)
        evidence_path = os.path.join(side, "evidence", "%s.json" % pid)
    os.makedirs(os.path.dirname(evidence_path), exist_ok=True)
    results = []
    verus_results = []
    exit_code = 0
    undecided = []
    violations = []
    known_hits = []
    try:
        try:
            src, hdir, added, sha = prepare_scratch(repo, scratch, sorted({o["file"] for o in P["obligations"] if o.get("backend", "kani") in ("kani", "native")}))
        except inject.LostAnchor as ex:
            log("UNDECIDED property=%s lost anchor: %s" % (pid, ex))
            return 2
        shutil.copy(os.path.join(repo, "Cargo.lock"), os.path.join(src, "Cargo.lock"))
        # textual anchors an argument of this property rests on (each regex must match exactly one line)
        for rel, rx in P.get("anchors", []):
            n = sum(1 for l in open(os.path.join(repo, rel)).read().split("\n") if re.search(rx, l))
            if n != 1:
                log("UNDECIDED property=%s lost anchor: %r matches %d lines of %s (expected 1)" % (pid, rx, n, rel))
                return 2
        kani_obs = [o for o in obs if o.get("backend", "kani") == "kani"]
        native_obs = [o for o in obs if o.get("backend") == "native"]
        smt_obs = [o for o in obs if o.get("backend") == "smt"]
        verus_obs = [o for o in obs if o.get("backend") == "verus"]
        # 1. build once per crate
        for crate in sorted({o["crate"] for o in kani_obs + native_obs if o.get("crate")}):
            log("[%s] building %s under Kani ..." % (pid, crate))
            b = run_limited(["cargo", "kani", "-p", crate, "--only-codegen"] + KANI_Z, src, 1800, 0)
            if b["rc"] != 0:
                tail = "\n".join(b["out"].strip().split("\n")[-40:])
                log(tail)
                log("UNDECIDED property=%s build of %s with the injected contracts failed "
                    "(a changed signature or a lost anchor; not a counterexample)" % (pid, crate))
                return 2
            log("[%s] built %s in %.0fs" % (pid, crate, b["wall"]))
        # 2. obligations in parallel
        heavy = threading.Semaphore(4)

        def job(o):
            if o.get("heavy"):
                with heavy:
                    return run_obligation(o, src)
            return run_obligation(o, src)

        with cf.ThreadPoolExecutor(max_workers=jobs) as ex:
            futs = [ex.submit(job, o) for o in kani_obs]
            for fu in cf.as_completed(futs):
                r = fu.result()
                results.append(r)
                log("[%s] %-44s %-11s %6.1fs  %s" % (pid, r["ob"]["name"], r["status"], r["res"]["wall"],
                                                   r["detail"].split("\n")[0][:150]))
        # 3. native exhaustive stand-ins (bounded, never counted as proved)
        for o in native_obs:
            r = run_native(o, src)
            results.append(r)
            log("[%s] %-44s %-11s %6.1fs  %s" % (pid, o["name"], r["status"], r["res"]["wall"], r["detail"][:150]))
        for o in smt_obs:
            r = run_smt(o, src)
            results.append(r)
            log("[%s] %-44s %-11s %6.1fs  %s" % (pid, o["name"], r["status"], r["res"]["wall"], r["detail"][:150]))
        # 4. Verus
        if verus_obs:
            verus_results = verus_run.run(repo, src, verus_obs, scratch, log)
            for r in verus_results:
                results.append(r)
                log("[%s] %-44s %-11s %6.1fs  %s" % (pid, r["ob"]["name"], r["status"], r["res"]["wall"],
                                                   r["detail"].split("\n")[0][:150]))
        # 5. classify
        known = [k for k in load_known() if k["property"] == pid]
        for r in sorted(results, key=lambda r: r["ob"]["name"]):
            o = r["ob"]
            if r["status"] == "violation":
                if o.get("backend") == "verus":
                    os.makedirs(replay_dir, exist_ok=True)
                    path = os.path.join(replay_dir, "%s.replay" % o["name"])
                    with open(path, "w") as f:
                        json.dump({"property": pid, "obligation": o["name"], "backend": "verus",
                                   "functions": o.get("functions", []), "concrete_playback_test": None,
                                   "verifier_output_tail": r["res"]["out"][-8000:]}, f, indent=1)
                    reproduced = False
                elif o.get("backend") in ("native", "smt"):
                    os.makedirs(replay_dir, exist_ok=True)
                    path = os.path.join(replay_dir, "%s.replay" % o["name"])
                    with open(path, "w") as f:
                        json.dump({"property": pid, "obligation": o["name"], "backend": o.get("backend"),
                                   "functions": o.get("functions", []), "concrete_playback_test": None,
                                   "verifier_output_tail": r["res"]["out"][-8000:]}, f, indent=1)
                    reproduced = o.get("backend") == "native"
                else:
                    path, reproduced = make_replay(pid, o, src, hdir, r["res"]["out"], replay_dir)
                r["replay"] = path
                r["reproduced"] = reproduced
                kn = [k for k in known if k["obligation"] == o["name"]]
                if kn:
                    known_hits.append((kn[0], r))
                    log("KNOWN-FINDING: property=%s %s (obligation %s)" % (pid, kn[0]["what"], o["name"]))
                    continue
                violations.append(r)
                suffix = "" if reproduced else " no-failing-input-found"
                log("VIOLATION property=%s replay=%s%s" % (pid, path, suffix))
                log("  failed obligation: %s -- %s" % (o["name"], r["detail"].split("\n")[0][:300]))
            elif r["status"] == "undecided":
                undecided.append(r)
                log("UNDECIDED property=%s obligation=%s :: %s" % (pid, o["name"], r["detail"][:600]))
        if violations:
            exit_code = 1
        elif undecided:
            exit_code = 2
        return exit_code
    finally:
        wall = time.time() - t0
        try:
            write_evidence(pid, P, tier, seed, obs, results, violations, undecided, known_hits, wall,
                           locals().get("added", 0), locals().get("sha", {}), repo, evidence_path)
        except Exception as ex:  # evidence must never mask the verdict
            log("evidence writing failed: %r" % ex)
        if not keep:
            shutil.rmtree(scratch, ignore_errors=True)


def run_smt(o, src):
    """Self-generated verification conditions over constants extracted from the source, discharged by z3."""
    la = lost_anchor(o, src)
    if la:
        return {"ob": o, "status": "undecided", "detail": la, "res": {"wall": 0.0, "out": "", "killed": None, "peak_rss": 0}}
    cmd = [x.replace("{src}", src) for x in o["cmd"]]
    res = run_limited(cmd, VERIF, o.get("timeout", 900), 8 * 2**30)
    out = res["out"] or ""
    m = re.search(r"MAGIC-VC (\d+) of (\d+) unsat in ([\d.]+)s", out)
    res["parsed"] = {"n_checks": int(m.group(2)) if m else None, "time": float(m.group(3)) if m else None}
    if res["killed"]:
        return {"ob": o, "status": "undecided", "detail": res["killed"], "res": res}
    if res["rc"] == 0 and m and m.group(1) == m.group(2) and int(m.group(2)) > 0:
        return {"ob": o, "status": "discharged", "detail": "z3: %s of %s queries unsat" % (m.group(1), m.group(2)), "res": res}
    if res["rc"] == 1:
        return {"ob": o, "status": "violation", "detail": "z3 found a model: " + " | ".join(
            l for l in out.split("\n") if "SAT" in l or "SIDE-CONDITION" in l)[:400], "res": res}
    return {"ob": o, "status": "undecided", "detail": "no verdict: " + out[-400:], "res": res}


def run_native(o, src):
    """Bounded stand-in executed natively: cargo kani playback of a #[test] in the harness module."""
    res = run_limited(["cargo", "kani", "playback", "-Z", "concrete-playback", "-p", o["crate"], "--",
                       o["test"], "--nocapture"], src, o.get("timeout", 1800), 0)
    out = res["out"] or ""
    if res["killed"]:
        return {"ob": o, "status": "undecided", "detail": res["killed"], "res": res}
    m = re.search(r"NATIVE-COUNT (\d+)", out)
    if "test result: ok. 1 passed" in out and m:
        res["native_count"] = int(m.group(1))
        return {"ob": o, "status": "discharged", "detail": "native exhaustive run: %s cases" % m.group(1), "res": res}
    if "test result: FAILED" in out or "panicked at" in out:
        return {"ob": o, "status": "violation", "detail": "native exhaustive run failed: " +
                " ".join(re.findall(r"panicked at.*\n.*", out)[:1])[:300], "res": res}
    return {"ob": o, "status": "undecided", "detail": "native run gave no verdict: " + out[-500:], "res": res}


def write_evidence(pid, P, tier, seed, obs, results, violations, undecided, known_hits, wall, added, sha, repo,
                   path):
    proved_kinds = ("contract", "proof", "verus", "smt")
    res_by = {r["ob"]["name"]: r for r in results}
    samples = []
    n_ob = n_dis = 0
    bounded = []
    fns = set()
    for o in obs:
        r = res_by.get(o["name"])
        st = r["status"] if r else "not-run"
        k = (r or {}).get("res", {}).get("parsed", {}) if r else {}
        entry = {
            "obligation": o["name"],
            "kind": o["kind"],
            "backend": {"kani": "Kani 0.68 / CBMC 6.11 (CaDiCaL)", "verus": "Verus 0.2026.09.13 / Z3",
                        "native": "native execution (bounded stand-in)",
                        "smt": "z3 (z3-solver wheel) on verification conditions generated from the extracted constants"}[o.get("backend", "kani")],
            "status": st,
            "checks": k.get("n_checks"),
            "verifier_time_s": k.get("time") if k.get("time") is not None else (r["res"].get("wall") if r else None),
            "wall_s": round(r["res"]["wall"], 1) if r else None,
            "what": o.get("desc", ""),
            "functions": o.get("functions", []),
        }
        if o["kind"] in proved_kinds:
            n_ob += 1
            if st == "discharged":
                n_dis += 1
            for f in o.get("functions", []):
                fns.add(f)
            samples.append(entry)
        else:
            entry["bound"] = o.get("bound", "")
            bounded.append(entry)
    known_names = {r["ob"]["name"] for _, r in known_hits}
    ev = {
        "property_id": pid,
        "tier": tier,
        "seed": seed,
        "level": "proof",
        "coverage": {
            "obligations": n_ob,
            "discharged": n_dis,
            "checker_cmd": "cargo kani -p <crate> --harness <obligation> --exact -Z function-contracts -Z stubbing "
                           "(per obligation, on an add-only annotated copy of /repo); verus <file>.rs for Verus "
                           "obligations",
            "trusted_base": props.TRUSTED_BASE + P.get("trusted", []),
            "samples": samples,
            "functions_under_contract": sorted(fns),
            "bounded_standins": bounded,
            "bounded_standins_note": "bounded stand-ins are reported here only; they are never counted in "
                                     "obligations/discharged",
            "assumed_contracts": P.get("assumed_contracts", []),
            "not_claimed": P.get("not_claimed", []),
            "assumption_scan": scan_assumptions(pid, obs),
            "unsafe_occurrences_in_repo_crates": scan_unsafe(repo),
            "injected_lines_add_only": added,
            "sha256_of_annotated_sources": sha,
            "verbatim_extractions": [e for e in EXTRACTION_LOG if any(e["out"] in open(os.path.join(VERIF, "kani", f)).read()
                                                                     for f in {o.get("file") for o in obs if o.get("file")}
                                                                     if os.path.exists(os.path.join(VERIF, "kani", f)))],
            "known_findings_hit": sorted(known_names),
            "undecided": [r["ob"]["name"] for r in undecided],
            "solver_time_total_s": round(sum((s.get("verifier_time_s") or 0) for s in samples), 1),
        },
        "assumptions": P.get("assumptions", []),
        "wall_s": round(wall, 1),
        "violations": len(violations),
    }
    with open(path, "w") as f:
        json.dump(ev, f, indent=1)


def main():
    ap = argparse.ArgumentParser()
    ap.add_argument("what")
    ap.add_argument("arg", nargs="?")
    ap.add_argument("--tier", default=os.environ.get("VERIF_TIER", "quick"))
    ap.add_argument("--repo", default="/repo")
    ap.add_argument("--only", default=None)
    ap.add_argument("--keep", action="store_true")
    ap.add_argument("--jobs", type=int, default=int(os.environ.get("VERIF_JOBS", "5")))
    a = ap.parse_args()
    if a.what == "list":
        for pid, P in props.PROPS.items():
            log(pid, len(P["obligations"]), "obligations")
            for o in P["obligations"]:
                log("   %-44s %-8s %-8s %s" % (o["name"], o.get("tier", "quick"), o["kind"], o.get("desc", "")[:80]))
        return 0
    if a.what == "replay":
        return cmd_replay(a.arg, a.repo)
    if a.what not in props.PROPS:
        log("unknown property %r" % a.what)
        return 2
    tier = a.tier if a.tier in ("quick", "thorough") else "quick"
    return cmd_check(a.what, tier, a.repo, a.only, a.keep, a.jobs)


if __name__ == "__main__":
    sys.exit(main())
