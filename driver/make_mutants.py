#!/usr/bin/env python3
"""(Re)generate /verif/mutants/*.patch: deliberate property-breaking edits used to validate the contracts.
Each mutant is one textual replacement in one file of /repo; the patch is the unified diff."""
import difflib
import os

REPO = "/repo"
OUT = os.path.join(os.path.dirname(os.path.dirname(os.path.abspath(__file__))), "mutants")
M = [
    ("C01_pawn_double_push_jumps_over_a_piece", "weechess-core/src/movegen.rs",
     """            let positons = (0..2).fold(pawns, |pawns, _| {
                pawns.shift(helper.turn_to_move().forward()) & helper.board().vacancy()
            });""",
     """            let positons = (0..2).fold(pawns, |pawns, _| pawns.shift(helper.turn_to_move().forward()))
                & helper.board().vacancy();"""),
    # (dropping the west captures altogether makes the engine's build script fail on the opening book, i.e. the project
    #  no longer builds; this variant only loses under-promotions)
    ("C01_pawn_no_underpromotion", "weechess-core/src/movegen.rs",
     "            &[Piece::Queen, Piece::Rook, Piece::Bishop, Piece::Knight];",
     "            &[Piece::Queen, Piece::Knight, Piece::Queen, Piece::Knight];"),
    ("C02_ep_victim_not_removed", "weechess-core/src/state.rs",
     "                map[capture].set(capture_square, false);\n", "                let _ = capture_square;\n"),
    ("C02_fullmove_counts_after_white", "weechess-core/src/state.rs",
     "fullmove_number: if state.turn_to_move == Color::Black {", "fullmove_number: if state.turn_to_move == Color::White {"),
    ("C20_dest_field_overlaps_origin", "weechess-core/src/moves.rs",
     "pub const DEST_OFFSET: u8 = 10;", "pub const DEST_OFFSET: u8 = 9;"),
    ("C15_insert_routes_by_shifted_hash", "weechess-engine/src/searcher.rs",
     "        let index = hash as usize % self.buckets.len();\n        if self.buckets[index]",
     "        let index = (hash >> 1) as usize % self.buckets.len();\n        if self.buckets[index]"),
    ("C09_rook_magic_zeroed", "weechess-core/src/attacks.rs",
     "BitBoard::from(0x0a8002c000108020u64),", "BitBoard::from(0x0000000000000000u64),"),
    ("C09_king_attacks_miss_south_west", "weechess-core/src/attacks.rs",
     "            Offset { file: -1, rank: -1 },\n            Offset { file: -1, rank: 0 },\n            Offset { file: -1, rank: 1 },\n            Offset { file: 0, rank: 1 },",
     "            Offset { file: -1, rank: 0 },\n            Offset { file: -1, rank: 0 },\n            Offset { file: -1, rank: 1 },\n            Offset { file: 0, rank: 1 },"),
    ("C05_mate_sign_ignores_perspective", "weechess-engine/src/eval/mod.rs",
     "                return if state.turn_to_move() == perspective {\n                    -Evaluation::mate_in_ply(depth)",
     "                return if state.turn_to_move() == Color::White {\n                    -Evaluation::mate_in_ply(depth)"),
    # (ignoring the SAN capture mark breaks the opening-book build; this one only affects the coordinate writer)
    ("C12_lan_promotion_letter_upper_case", "weechess-core/src/notation.rs",
     "                write!(f, \"{}\", Into::<char>::into(promotion).to_ascii_lowercase())?;",
     "                write!(f, \"{}\", Into::<char>::into(promotion))?;"),
    ("C08_side_to_move_not_hashed", "weechess-core/src/hasher.rs",
     "        hash ^= self.turn_hash[state.turn_to_move()];\n", "        let _ = &self.turn_hash;\n"),
    ("C17_repetition_ignored_at_depth_one", "weechess-engine/src/searcher.rs",
     "if current_depth > 0 && state_history.lookup(&state_hash).is_some()", "if current_depth > 1 && state_history.lookup(&state_hash).is_some()"),
    ("C10_pawn_map_keeps_own_squares", "weechess-core/src/board.rs",
     "        pawn_attacks &= !own_occupancy;\n", "        let _ = own_occupancy;\n"),
    ("C01_white_long_castle_ignores_b1", "weechess-core/src/common.rs",
     "BitBoard::new(0x000000000000000eu64),", "BitBoard::new(0x000000000000000cu64),"),
    ("C03_line_iterator_keeps_old_position", "weechess-engine/src/searcher.rs",
     "        self.current_game_state = next_game_state.clone();\n", "        let _ = &self.current_game_state;\n"),
    ("C11_castle_letter_q_sets_kingside", "weechess-core/src/notation.rs",
     "token::BLACK_QUEEN => result[Color::Black].queenside = true,", "token::BLACK_QUEEN => result[Color::Black].kingside = true,"),
    ("C13_piece_square_black_not_flipped", "weechess-engine/src/eval/evaluate_piece_squares.rs",
     "        Square::from(square).flip_rank()\n", "        Square::from(square)\n"),
    ("C14_san_digit_arithmetic_underflows", "weechess-core/src/notation.rs",
     "                        '1' => query.set_destination_rank(Rank::ONE),", "                        '1' | '0' => query.set_destination_rank(Rank::from_index((r as usize) - ('1' as usize)).unwrap()),"),
    # ---- round 3: mutants for the obligations on extracted text --------------------------------------------------------------
    ("C17_root_hash_not_recorded_with_old_memory", "weechess-engine/src/searcher.rs",
     "        state_history.increment(game_state_hash);\n",
     "        if state_history.lookup(&game_state_hash).is_none() && best_mv.is_some() {\n            state_history.increment(game_state_hash);\n        }\n"),
    ("C12_bestmove_promotion_letter_upper_case", "weechess-engine/src/uci.rs",
     "                        String::from(c.to_ascii_lowercase())", "                        String::from(c)"),
    ("C14_go_depth_argument_indexed_unchecked", "weechess-engine/src/uci.rs",
     "                                if let Some(depth) = iter.next() {\n                                    if let Ok(depth) = usize::from_str_radix(depth, 10) {",
     "                                if let Some(depth) = Some(&args[1]) {\n                                    if let Ok(depth) = usize::from_str_radix(depth, 10) {"),
    ("C09_rook_lookup_shift_off_by_one", "weechess-core/src/attacks.rs",
     "        let key = u64::wrapping_mul(occupancy, magic) >> (64 - data::ROOK_MAGIC_INDEXES[square]);\n        data::ROOK_MAGIC_TABLE",
     "        let key = u64::wrapping_mul(occupancy, magic) >> (63 - data::ROOK_MAGIC_INDEXES[square]);\n        data::ROOK_MAGIC_TABLE"),
    ("C09_bishop_mask_keeps_north_edge", "weechess-core/src/attacks.rs",
     "            masks[*square] |= RAYS[Direction::NorthWest][*square]\n                & !(common::FILE_MASKS[File::A] | common::RANK_MASKS[Rank::EIGHT]);",
     "            masks[*square] |= RAYS[Direction::NorthWest][*square]\n                & !(common::FILE_MASKS[File::A]);"),
    ("C13_piece_squares_skips_the_king", "weechess-engine/src/eval/evaluate_piece_squares.rs",
     "    for piece in Piece::ALL {\n        let piece_index = PieceIndex::new(*perspective, *piece);",
     "    for piece in Piece::ALL.iter().filter(|p| **p != Piece::King) {\n        let piece_index = PieceIndex::new(*perspective, *piece);"),
    ("C11_writer_run_length_not_reset", "weechess-core/src/notation.rs",
     "                                write!(f, \"{}\", empty_squares)?;\n                                empty_squares = 0;",
     "                                write!(f, \"{}\", empty_squares)?;\n                                empty_squares = empty_squares - empty_squares / 8 * 8;"),
    ("C11_writer_castling_black_before_white", "weechess-core/src/notation.rs",
     "                    if value.castle_rights(Color::White).queenside {\n                        write!(f, \"Q\")?;\n                    }\n                    if value.castle_rights(Color::Black).kingside {\n                        write!(f, \"k\")?;\n                    }",
     "                    if value.castle_rights(Color::Black).kingside {\n                        write!(f, \"k\")?;\n                    }\n                    if value.castle_rights(Color::White).queenside {\n                        write!(f, \"Q\")?;\n                    }"),
    ("C18_ucinewgame_keeps_memory_of_running_search", "weechess-engine/src/uci.rs",
     "                    if let Some(search) = current_search.take() {\n                        search.wait_cancel();\n                    }\n\n                    // A new game must not inherit the search memory of the previous one\n                    previous_artifact = None;",
     "                    previous_artifact = None;\n                    if let Some(search) = current_search.take() {\n                        previous_artifact = Some(search.wait_cancel());\n                    }"),
    ("C17_history_lookup_ignores_the_lowest_key_bit", "weechess-engine/src/searcher.rs",
     "        self.states.get(hash)\n", "        self.states.get(&(*hash | 1)).or_else(|| self.states.get(&(*hash & !1)))\n"),
    ("C02_ambiguous_query_applies_the_first_match", "weechess-core/src/state.rs",
     "                [mv] => {\n", "                [mv, ..] => {\n"),
    ("C15_access_stores_under_shifted_key", "weechess-engine/src/searcher.rs",
     "        self.tables[index].write().unwrap().insert(hash, entry);", "        self.tables[index].write().unwrap().insert(hash >> 7, entry);"),
]
os.makedirs(OUT, exist_ok=True)
for name, rel, old, new in M:
    src = open(os.path.join(REPO, rel)).read()
    if src.count(old) != 1:
        print("SKIP %s: anchor occurs %d times" % (name, src.count(old)))
        continue
    mut = src.replace(old, new)
    d = "".join(difflib.unified_diff(src.splitlines(True), mut.splitlines(True), "a/" + rel, "b/" + rel))
    open(os.path.join(OUT, name + ".patch"), "w").write(d)
    print("wrote", name)
