#!/usr/bin/env python3
"""Emit the markdown table 'which checks catch which seeded changes' from seeded/*/{meta.json,check_result.txt}."""
import glob
import json
import os
import re

VERIF = os.path.dirname(os.path.dirname(os.path.abspath(__file__)))
rows = []
for d in sorted(glob.glob(os.path.join(VERIF, "seeded", "*"))):
    if not os.path.isdir(d):
        continue
    meta = json.load(open(os.path.join(d, "meta.json")))
    res = open(os.path.join(d, "check_result.txt")).read() if os.path.exists(os.path.join(d, "check_result.txt")) else "not run"
    verdict = res.split("\n")[0]
    obs = sorted(set(re.findall(r"failed obligation: (\w+)", res)))
    undec = sorted(set(re.findall(r"UNDECIDED property=\w+ obligation=(\w+)", res)))
    for extra in sorted(glob.glob(os.path.join(d, "check_result_*.txt"))):
        t = open(extra).read()
        pid = re.search(r"check_result_(\w+)\.txt", extra).group(1)
        verdict += "; under %s: %s" % (pid, t.split("\n")[0].split(" tier=")[0])
        obs += ["%s" % o for o in sorted(set(re.findall(r"failed obligation: (\w+)", t)))]
    conf = open(os.path.join(d, "confirm.txt")).read().strip().split("\n")[-1] if os.path.exists(os.path.join(d, "confirm.txt")) else "?"
    summ = meta.get("summary", "").replace("\n", " ").replace("|", "/")
    summ = (summ[:150] + "…") if len(summ) > 150 else summ
    rows.append("| %s | %s | %s | %s | %s |" % (os.path.basename(d), conf, verdict.replace("|", "/"), ", ".join(obs) or (("undecided: " + ", ".join(undec)) if undec else "—"), summ))
print("| seeded change | confirmed | result of `./check` on the patched tree | obligations that fail | what the change does |")
print("|---|---|---|---|---|")
print("\n".join(rows))
