#!/usr/bin/env python3
import os, re, subprocess
V = os.path.dirname(os.path.dirname(os.path.abspath(__file__)))
table = subprocess.run(["python3", os.path.join(V, "driver", "seeded_table.py")], capture_output=True, text=True).stdout.strip()
p = os.path.join(V, "DESIGN.md")
s = open(p).read()
s = re.sub(r"<!-- SEEDED-TABLE-BEGIN -->.*?<!-- SEEDED-TABLE-END -->", "<!-- SEEDED-TABLE-BEGIN -->\n" + table.replace("\\", "\\\\") + "\n<!-- SEEDED-TABLE-END -->", s, flags=re.S)
open(p, "w").write(s)
print("table updated:", table.count("\n") - 1, "rows")
