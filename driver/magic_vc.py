#!/usr/bin/env python3
"""Verification conditions for the perfect hashing of the REAL magic constants, discharged by z3.

The constants (ROOK_MAGICS, BISHOP_MAGICS, *_MAGIC_INDEXES) are extracted textually from the given copy of
weechess-core/src/attacks.rs on every run.  For every (piece, square) the query

    b1, b2 subsets of mask(square),  index(b1) == index(b2),  attack_set(b1) != attack_set(b2)

must be UNSAT, where index(b) = (b * magic) >> (64 - width) in 64-bit machine arithmetic (bit-vectors, not
mathematical integers), mask and attack_set are the geometric spec (the same file/rank arithmetic as kani/c09.rs:
spec_in_mask / spec_slider_hits, which the Kani obligations tie to the real slide masks and the real unoptimised
generators), plus the concrete side conditions 1 <= width <= 12 and width >= popcount(mask).
Output: one line per query, then `MAGIC-VC <n_unsat> of <n> unsat` ; exit 0 all unsat, 1 a query is sat (prints the
model), 2 extraction failed / unknown.
"""
import re
import sys
import time

import z3


def extract(path):
    txt = open(path).read()

    def block(name):
        m = re.search(name + r"[^=]*=\s*ArrayMap::new\(\[(.*?)\]\)", txt, re.S)
        if not m:
            raise SystemExit("EXTRACT-FAILED %s" % name)
        return m.group(1)

    def magics(name):
        vals = [int(x, 16) for x in re.findall(r"BitBoard::from\(0x([0-9a-fA-F]+)u64\)", block(name))]
        if len(vals) != 64:
            raise SystemExit("EXTRACT-FAILED %s: %d values" % (name, len(vals)))
        return vals

    def widths(name):
        vals = [int(x) for x in re.findall(r"\b(\d+)\b", block(name))]
        if len(vals) != 64:
            raise SystemExit("EXTRACT-FAILED %s: %d values" % (name, len(vals)))
        return vals

    return {"rook": (magics("ROOK_MAGICS"), widths("ROOK_MAGIC_INDEXES")),
            "bishop": (magics("BISHOP_MAGICS"), widths("BISHOP_MAGIC_INDEXES"))}


def sgn(x):
    return (x > 0) - (x < 0)


def on_line(s, t, rook):
    df, dr = t % 8 - s % 8, t // 8 - s // 8
    if df == 0 and dr == 0:
        return False
    return (df == 0 or dr == 0) if rook else abs(df) == abs(dr)


def in_mask(s, t, rook):
    if not on_line(s, t, rook):
        return False
    df, dr = t % 8 - s % 8, t // 8 - s // 8
    f, r = t % 8 + sgn(df), t // 8 + sgn(dr)
    return 0 <= f < 8 and 0 <= r < 8


def between(s, t):
    df, dr = t % 8 - s % 8, t // 8 - s // 8
    n = max(abs(df), abs(dr))
    return [(s // 8 + k * sgn(dr)) * 8 + s % 8 + k * sgn(df) for k in range(1, n)]


def main():
    consts = extract(sys.argv[1])
    total = unsat = 0
    t0 = time.time()
    bad = []
    for piece, (magic, width) in consts.items():
        rook = piece == "rook"
        for s in range(64):
            total += 1
            mask = sum(1 << t for t in range(64) if in_mask(s, t, rook))
            w = width[s]
            if not (1 <= w <= 12 and w >= bin(mask).count("1")):
                print("%s %d SIDE-CONDITION-FAILED width=%d popcount=%d" % (piece, s, w, bin(mask).count("1")))
                bad.append((piece, s, "width"))
                continue
            b1, b2 = z3.BitVec("b1", 64), z3.BitVec("b2", 64)
            M = z3.BitVecVal(magic[s], 64)
            i1 = z3.LShR(b1 * M, 64 - w)
            i2 = z3.LShR(b2 * M, 64 - w)

            def hit(b, t):
                return z3.And([z3.Extract(u, u, b) == 0 for u in between(s, t)] or [z3.BoolVal(True)])

            differ = z3.Or([hit(b1, t) != hit(b2, t) for t in range(64) if on_line(s, t, rook)])
            sol = z3.Solver()
            sol.set("timeout", 120000)
            sol.add(b1 & ~mask == 0, b2 & ~mask == 0, i1 == i2, differ)
            r = sol.check()
            if r == z3.unsat:
                unsat += 1
            elif r == z3.sat:
                m = sol.model()
                print("%s square %d SAT b1=%#x b2=%#x magic=%#x width=%d" % (piece, s, m[b1].as_long(), m[b2].as_long(), magic[s], w))
                bad.append((piece, s, "collision"))
            else:
                print("%s square %d UNKNOWN" % (piece, s))
                bad.append((piece, s, "unknown"))
    print("MAGIC-VC %d of %d unsat in %.1fs (z3 %s)" % (unsat, total, time.time() - t0, z3.get_version_string()))
    if any(b[2] in ("collision", "width") for b in bad):
        return 1
    return 2 if bad else 0


if __name__ == "__main__":
    sys.exit(main())
