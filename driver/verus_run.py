"""Verus back end (filled in for C15)."""


def run(repo, src, obs, scratch, log):
    return []
