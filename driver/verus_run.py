"""Verus back end: splice VERBATIM function bodies of the real source under the contracts in verus/tt_contracts.rs."""
import json
import os
import re
import subprocess
import time

import inject

HERE = os.path.dirname(os.path.abspath(__file__))
VERIF = os.path.dirname(HERE)
SRC_FILE = "weechess-engine/src/searcher.rs"


class SpliceError(Exception):
    pass


def _item_text(lines, header):
    s, e = inject.find_scope(lines, header)
    return lines[s:e + 1]


def _split_fn(fn_lines):
    """-> (signature text without the opening brace, inner body lines)"""
    text = "\n".join(fn_lines)
    i = text.index("{")
    sig = text[:i].rstrip()
    j = text.rindex("}")
    return sig, text[i + 1:j].strip("\n")


def _name_return(sig):
    m = re.search(r"\)\s*->\s*(.+)$", sig, re.S)
    if not m:
        return sig
    ty = m.group(1).strip()
    return sig[:m.start()] + ") -> (r: %s)" % ty


def build(src_root):
    """Returns (text, fn_ranges: {name: (first_line, last_line)}, spliced: {name: body_text})"""
    with open(os.path.join(src_root, SRC_FILE)) as f:
        lines = f.read().split("\n")
    with open(os.path.join(VERIF, "verus", "tt_prelude.rs")) as f:
        out = f.read().rstrip("\n").split("\n")
    with open(os.path.join(VERIF, "verus", "tt_contracts.rs")) as f:
        tpl = f.read().split("\n")
    spliced = {}
    i = 0
    while i < len(tpl):
        ln = tpl[i]
        if ln.startswith("//@ITEM "):
            out.extend(_item_text(lines, ln[len("//@ITEM "):].strip()))
        elif ln.startswith("//@IMPL "):
            out.append(ln[len("//@IMPL "):].strip() + " {")
        elif ln.startswith("//@ENDIMPL"):
            out.append("}")
        elif ln.startswith("//@FN "):
            scope, name = [x.strip() for x in ln[len("//@FN "):].split("::")]
            s, e = inject.find_scope(lines, scope)
            k = inject.find_fn(lines, name, s, e)
            a, b = inject.fn_extent(lines, k)
            sig, body = _split_fn(lines[a:b + 1])
            clauses, prologue, epilogue = [], [], []
            cur = clauses
            i += 1
            while not tpl[i].startswith("//@BODY"):
                if tpl[i].startswith("//@PROLOGUE"):
                    cur = prologue
                else:
                    cur.append(tpl[i])
                i += 1
            if i + 1 < len(tpl) and tpl[i + 1].startswith("//@EPILOGUE"):
                i += 2
                while not tpl[i].startswith("//@END"):
                    epilogue.append(tpl[i])
                    i += 1
            out.append("    " + _name_return(sig.strip()))
            out.extend(clauses)
            out.append("    {")
            out.extend(prologue)
            out.append(body)
            out.extend(epilogue)
            out.append("    }")
            spliced["%s::%s" % (scope.replace("impl ", ""), name)] = body
        elif ln.startswith("//@") or ln.startswith("// "):
            pass
        else:
            out.append(ln)
        i += 1
    out.append("} // verus!")
    out.append("fn main() {}")
    # function line ranges of the generated file
    out = "\n".join(out).split("\n")
    ranges = {}
    for idx, l in enumerate(out):
        m = re.match(r"^\s*(pub\s+)?(open\s+|closed\s+|uninterp\s+)?(proof\s+|spec\s+)?fn\s+(\w+)", l)
        if m:
            try:
                a, b = inject.fn_extent(out, idx)
            except inject.LostAnchor:
                a, b = idx, idx
            ranges.setdefault(m.group(4), []).append((a + 1, b + 1))
    return "\n".join(out), ranges, spliced


def run(repo, src, obs, scratch, log):
    t0 = time.time()
    results = []

    def all_status(status, detail, out=""):
        return [{"ob": o, "status": status, "detail": detail,
                 "res": {"wall": time.time() - t0, "out": out, "parsed": {"n_checks": None, "time": None}}}
                for o in obs]

    try:
        text, ranges, spliced = build(src)
    except (inject.LostAnchor, ValueError, IndexError) as ex:
        return all_status("undecided", "lost anchor while splicing the Verus file: %r" % (ex,))
    # the spliced bodies must be byte-identical to /repo's text (the copy is add-only, re-extract from /repo to be sure)
    try:
        _, _, spliced_repo = build(repo)
    except Exception as ex:
        return all_status("undecided", "lost anchor in /repo: %r" % (ex,))
    if spliced != spliced_repo:
        return all_status("undecided", "verbatim-body comparison failed")
    vdir = os.path.join(scratch, "verus")
    os.makedirs(vdir, exist_ok=True)
    path = os.path.join(vdir, "tt.rs")
    with open(path, "w") as f:
        f.write(text)
    p = subprocess.run(["verus", "tt.rs", "--output-json", "--time", "--triggers-mode", "silent", "--multiple-errors", "50"], cwd=vdir,
                       capture_output=True, text=True, timeout=1200)
    out = p.stdout + "\n" + p.stderr
    m = re.search(r"\{\s*\"(func-details|verification-results)\".*\}\s*$", p.stdout, re.S)
    js = {}
    if m:
        try:
            js = json.loads(p.stdout[p.stdout.index("{"):])
        except Exception:
            js = {}
    vr = js.get("verification-results", {})
    smt_ms = js.get("times-ms", {}).get("smt", {}).get("total")
    total_ms = js.get("times-ms", {}).get("total")
    if vr.get("encountered-vir-error") or (vr.get("encountered-error") and "verified" not in vr):
        return all_status("undecided", "Verus could not process the spliced file (a body left Verus' subset or no longer "
                          "type-checks against the contract signature):\n" + p.stderr[-1500:], out)
    # locate every error in the generated file
    err_lines = []
    for em in re.finditer(r"^error(?:\[\w+\])?: (.*)\n\s+--> tt\.rs:(\d+):", p.stderr, re.M):
        err_lines.append((em.group(1), int(em.group(2))))
    rlimit = "Resource limit" in p.stderr or "rlimit" in p.stderr

    def fn_of(line):
        best = None
        for name, rs in ranges.items():
            for a, b in rs:
                if a <= line <= b:
                    if best is None or (b - a) < best[1]:
                        best = (name, b - a)
        return best[0] if best else None

    failed_fns = {}
    for msg, ln in err_lines:
        failed_fns.setdefault(fn_of(ln), []).append("%s (generated line %d)" % (msg, ln))
    canaries = [n for n in ranges if n.startswith("canary_")]
    missing_canary = [c for c in canaries if c not in failed_fns]
    n_verified = vr.get("verified")
    for o in obs:
        res = {"wall": time.time() - t0, "out": out[-12000:],
               "parsed": {"n_checks": n_verified, "time": (smt_ms or total_ms or 0) / 1000.0}}
        if o.get("canary"):
            if missing_canary:
                results.append({"ob": o, "status": "undecided",
                                "detail": "vacuity alarm: canaries that did not fail: %s" % missing_canary, "res": res})
            else:
                results.append({"ob": o, "status": "discharged",
                                "detail": "all %d must-fail canaries fail" % len(canaries), "res": res})
            continue
        bad = {f: failed_fns[f] for f in o["verus_fns"] if f in failed_fns}
        if bad:
            if rlimit:
                results.append({"ob": o, "status": "undecided", "detail": "Verus rlimit: %r" % bad, "res": res})
            else:
                results.append({"ob": o, "status": "violation",
                                "detail": "Verus obligation failed: " + "; ".join(
                                    "%s: %s" % (k, ", ".join(v)) for k, v in bad.items()), "res": res})
        elif n_verified is None:
            results.append({"ob": o, "status": "undecided", "detail": "no result from Verus", "res": res})
        else:
            results.append({"ob": o, "status": "discharged",
                            "detail": "Verus: %s verified in file, none of %s failed" % (n_verified, o["verus_fns"]),
                            "res": res})
    return results
