//! Native demonstration for finding F8 (property C18): `ucinewgame` keeps the search memory collected from an earlier
//! search, so a position searched in the previous game is treated as a repetition in the new one.
//!
//! Place as weechess-engine/tests/f8_c18_demo.rs and run `cargo test -p weechess_engine --offline --test f8_c18_demo`.
//! The test re-executes its own binary as a child that runs the REAL `Client::exec()` on piped stdin/stdout.
//!
//! Q = 3q3k/8/8/8/8/8/8/R2Q3K w - - 0 1 : White (queen and rook against queen) wins the undefended queen with d1d8; every other move keeps at most a rook more.
//! Session "fresh":  position fen Q / go depth 2                      -> bestmove d1d8
//! Session "stale":  position fen Q moves d1d8 / go depth 1 / stop / ucinewgame / position fen Q / go depth 2
//!                   -> on the defective tree the successor of d1d8 is still in the history, is valued as a draw, and
//!                      the engine prefers another move.
use std::io::{BufRead, BufReader, Write};
use std::process::{Command, Stdio};

const Q: &str = "3q3k/8/8/8/8/8/8/R2Q3K w - - 0 1";

#[test]
fn child_entry() {
    if std::env::var("WEECHESS_DEMO_CHILD").is_ok() {
        weechess_engine::uci::Client::new().exec().unwrap();
    }
}

fn session(lines: &[String], bestmoves_expected: usize) -> Vec<String> {
    let mut child = Command::new(std::env::current_exe().unwrap())
        .args(["--exact", "child_entry", "--nocapture", "--test-threads", "1"])
        .env("WEECHESS_DEMO_CHILD", "1")
        .stdin(Stdio::piped())
        .stdout(Stdio::piped())
        .stderr(Stdio::null())
        .spawn()
        .unwrap();
    let mut stdin = child.stdin.take().unwrap();
    let mut out = BufReader::new(child.stdout.take().unwrap());
    let mut best = vec![];
    let mut read_until_bestmove = |best: &mut Vec<String>| {
        let mut l = String::new();
        loop {
            l.clear();
            if out.read_line(&mut l).unwrap() == 0 {
                panic!("engine closed its output");
            }
            if let Some(m) = l.trim().strip_prefix("bestmove ") {
                best.push(m.to_string());
                return;
            }
        }
    };
    for l in lines {
        writeln!(stdin, "{}", l).unwrap();
        stdin.flush().unwrap();
        if l.starts_with("go") {
            read_until_bestmove(&mut best);
        }
    }
    writeln!(stdin, "quit").unwrap();
    drop(stdin);
    child.wait().unwrap();
    assert_eq!(best.len(), bestmoves_expected);
    best
}

#[test]
fn ucinewgame_forgets_the_previous_game() {
    if std::env::var("WEECHESS_DEMO_CHILD").is_ok() {
        return;
    }
    let fresh = session(&[format!("position fen {}", Q), "go depth 2".into()], 1);
    assert_eq!(fresh[0], "d1d8", "fresh process wins the queen");
    let stale = session(
        &[
            format!("position fen {} moves d1d8", Q),
            "go depth 1".into(),
            "stop".into(),
            "ucinewgame".into(),
            format!("position fen {}", Q),
            "go depth 2".into(),
        ],
        2,
    );
    assert_eq!(stale[1], fresh[0], "after ucinewgame the engine must answer as a fresh process does");
}
