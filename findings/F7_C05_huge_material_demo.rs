use weechess_core::{notation::{try_from_notation, Fen}, Color, MoveGenerator, State};
use weechess_engine::eval::Evaluator;

// Nine queens, two rooks, two bishops and two knights against a bare king: 104 pawn units of material.
// The side to move has plenty of legal moves, so the score must not look like a mate score.
#[test]
fn huge_material_is_not_a_mate_score() {
    let s: State = try_from_notation::<_, Fen>("QQQQQQQQ/QRRBBNN1/8/8/8/8/8/k6K w - - 0 1").unwrap();
    assert!(!MoveGenerator::compute_legal_moves(&s).is_empty());
    let e = Evaluator::default().evaluate(&s, Color::White, 0);
    assert!(!e.is_terminal(), "heuristic score {} looks like a mate score", e);
    let e = Evaluator::default().evaluate(&s, Color::Black, 0);
    assert!(!e.is_terminal(), "heuristic score {} looks like a mate score", e);
}
