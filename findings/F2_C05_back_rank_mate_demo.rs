use weechess_core::{notation::{try_from_notation, Fen}, Color, MoveGenerator, State};
use weechess_engine::eval::{Evaluation, Evaluator};

// Back-rank mate: the black king on g8 is checked by the rook on d8; h8 is "free" only because the attack map
// is computed with the king still standing on the ray.
#[test]
fn back_rank_mate_is_scored_as_mate() {
    let s: State = try_from_notation::<_, Fen>("3R2k1/5ppp/8/8/8/8/8/4K3 b - - 0 1").unwrap();
    assert!(s.is_check());
    assert!(MoveGenerator::compute_legal_moves(&s).is_empty());
    let e = Evaluator::default().evaluate(&s, Color::Black, 3);
    assert_eq!(e, -Evaluation::mate_in_ply(3), "checkmate must get the mate score, got {}", e);
    let e = Evaluator::default().evaluate(&s, Color::White, 3);
    assert_eq!(e, Evaluation::mate_in_ply(3));
}
